(* GenericStogP.v -- carrier-independent versions of the structural C11 / C12
   statements about the stateful layer (StogM.v) and of the command-line flow
   (CliM.v): for ANY instance of Num, no law of the operations assumed.  They are
   statements about which slot of the state is read or written by which step, so
   they hold verbatim at the executed binary64 instance NumF.

   Differences with the real-number files (IngestP.v, WorkflowP.v): at R the
   rounding noise  noise16 = np.around(., 16)  is the identity and was rewritten
   away; here it stays where the code has it (filter_ret_g, with_filter_g). *)
From Coq Require Import List Bool ZArith.
From PyStoG Require Import Num ConverterM TransformerM FilterM StogM CliM.
Import ListNotations.

Section GenericStog.
  Context {A : Type} `{Num A}.

  Notation stateA := (@state A).
  Notation configA := (@config A).
  Notation curveA := (@curve A).
  Notation opA := (@op A).
  Notation dinfoA := (@dinfo A).

  (* ================= C11: add_dataset ================= *)
  Theorem add_dataset_appends_gen (c : configA) (s : stateA) (d : dinfoA) :
    s_recip (add_dataset c s d) = cat3 (s_recip s) (ingest_rows c d) /\
    s_sq (add_dataset c s d) = cat3 (s_sq s) (to_sq c d (ingest_rows c d)) /\
    t_sq (add_dataset c s d) = t_sq s /\ t_qsq (add_dataset c s d) = t_qsq s /\
    t_ft (add_dataset c s d) = t_ft s /\ t_sqft (add_dataset c s d) = t_sqft s /\
    t_fq (add_dataset c s d) = t_fq s /\ t_gr (add_dataset c s d) = t_gr s /\
    t_grft (add_dataset c s d) = t_grft s /\ t_grl (add_dataset c s d) = t_grl s /\
    t_gk (add_dataset c s d) = t_gk s.
  Proof. repeat split. Qed.

  Theorem ingest_history_independent_gen (c : configA) (ds : list dinfoA) (s0 : stateA) :
    s_recip (fold_left (add_dataset c) ds s0) =
      fold_left cat3 (map (ingest_rows c) ds) (s_recip s0) /\
    s_sq (fold_left (add_dataset c) ds s0) =
      fold_left cat3 (map (fun d => to_sq c d (ingest_rows c d)) ds) (s_sq s0).
  Proof.
    revert s0; induction ds as [|d ds IH]; intros s0; cbn [fold_left map]; [split; reflexivity|].
    destruct (IH (add_dataset c s0 d)) as [E1 E2]. rewrite E1, E2. split; reflexivity.
  Qed.

  (* the nine master curves *)
  Definition masters_g (s : stateA) :=
    (t_sq s, t_qsq s, t_ft s, t_sqft s, t_fq s, t_gr s, t_grft s, t_grl s, t_gk s).
  Theorem masters_untouched_gen (c : configA) (ds : list dinfoA) (s0 : stateA) :
    masters_g (fold_left (add_dataset c) ds s0) = masters_g s0.
  Proof.
    revert s0; induction ds as [|d ds IH]; intros s0; cbn [fold_left]; [reflexivity|].
    rewrite IH. reflexivity.
  Qed.

  (* the running window extremes are the fold of pymin / pymax over the dataset windows *)
  Lemma add_dataset_window_gen (c : configA) (s : stateA) (d : dinfoA) :
    s_xmin (add_dataset c s d) = pymin (s_xmin s) (opt_or (d_qmin d) (vmin (map around2 (d_x d)))) /\
    s_xmax (add_dataset c s d) = pymax (s_xmax s) (opt_or (d_qmax d) (vmax (map around2 (d_x d)))).
  Proof. split; reflexivity. Qed.

  (* the S(Q) row is the conversion of the stored row *)
  Lemma to_sq_def_gen (c : configA) (d : dinfoA) (x y e : list A) :
    to_sq c d (x, y, e) =
    (x, fst (rconv (d_kind d) rS x y (Some e) (conv_kw c)),
        snd (rconv (d_kind d) rS x y (Some e) (conv_kw c))).
  Proof. unfold to_sq. destruct (rconv (d_kind d) rS x y (Some e) (conv_kw c)); reflexivity. Qed.

  (* ================= C12: the workflow ================= *)
  (* the transform of the merged S(Q): S_to_<fn>(q, sq, dr, lorch=False, rho, <b_coh>^2) *)
  Definition T_g (c : configA) (s : stateA) : curveA :=
    let '(q, sq) := curve_or_empty (t_sq s) in
    let '(r, g, _) := q2r rS (c_fn c) q sq (c_dr c) None (transform_kw c) in (r, g).

  (* the Fourier filter applied to the merged S(Q) and a real-space curve (r, gr) *)
  Definition filter_call_g (c : configA) (s : stateA) (rg : curveA) : fout A :=
    let '(q, sq) := curve_or_empty (t_sq s) in
    filter_variant (c_fn c) rS (fst rg) (snd rg) q sq (c_cutoff c) None None (filter_kw c).

  (* what fourier_filter returns, and where it stores it (rounding calls as in the code) *)
  Definition filter_ret_g (o : fout A) : @filter_out A :=
    {| fo_q := map around2 (q_c o); fo_sq := map noise16 (y_c o); fo_r := r_o o; fo_gr := g_o o |}.
  Definition with_filter_g (s : stateA) (o : fout A) : stateA :=
    {| s_xmin := s_xmin s; s_xmax := s_xmax s; s_recip := s_recip s; s_sq := s_sq s;
       t_sq := t_sq s; t_qsq := t_qsq s;
       t_ft := Some (map around2 (q_ft o), map noise16 (y_ft o));
       t_sqft := Some (map around2 (q_c o), map noise16 (y_c o));
       t_fq := t_fq s; t_gr := t_gr s;
       t_grft := Some (r_o o, g_o o);
       t_grl := t_grl s; t_gk := t_gk s |}.

  (* the filter applied to the merged data and its transform *)
  Definition Fout_g (c : configA) (s : stateA) : @filter_out A :=
    snd (fourier_filter c (set_gr s (Some (T_g c s)))).

  Theorem transform_is_library_call_gen (c : configA) (s : stateA) :
    transform_merged c s = (set_gr s (Some (T_g c s)), T_g c s).
  Proof.
    unfold transform_merged, T_g. destruct (curve_or_empty (t_sq s)) as [q sq].
    destruct (q2r rS (c_fn c) q sq (c_dr c) None (transform_kw c)) as [[r g] e]. reflexivity.
  Qed.

  Lemma T_ext_g (c : configA) (s s' : stateA) : t_sq s = t_sq s' -> T_g c s = T_g c s'.
  Proof. unfold T_g. intros ->. reflexivity. Qed.

  (* the state the filter works on: the transform is computed first when it is missing *)
  Definition ensure_gr_g (c : configA) (s : stateA) : stateA :=
    match t_gr s with Some _ => s | None => set_gr s (Some (T_g c s)) end.

  Lemma fourier_filter_eq_g (c : configA) (s : stateA) :
    fourier_filter c s =
      let s' := ensure_gr_g c s in
      let o := filter_call_g c s' (curve_or_empty (t_gr s')) in
      (with_filter_g s' o, filter_ret_g o).
  Proof.
    unfold fourier_filter, ensure_gr_g. rewrite transform_is_library_call_gen. cbn [fst].
    set (s' := match t_gr s with Some _ => s | None => set_gr s (Some (T_g c s)) end).
    cbn zeta. unfold filter_call_g.
    destruct (curve_or_empty (t_gr s')) as [r gr]. destruct (curve_or_empty (t_sq s')) as [q sq]. cbn [fst snd].
    reflexivity.
  Qed.

  Theorem filter_is_library_call_gen (c : configA) (s : stateA) (r gr : list A) :
    t_gr s = Some (r, gr) ->
    fourier_filter c s =
      let o := filter_call_g c s (r, gr) in (with_filter_g s o, filter_ret_g o).
  Proof.
    intros E. rewrite fourier_filter_eq_g. unfold ensure_gr_g. rewrite E. cbn zeta. rewrite E. reflexivity.
  Qed.

  Lemma ensure_gr_none_g (c : configA) (s : stateA) :
    t_gr s = None -> ensure_gr_g c s = set_gr s (Some (T_g c s)).
  Proof. unfold ensure_gr_g. intros ->. reflexivity. Qed.
  Lemma ensure_gr_some_g (c : configA) (s : stateA) v : t_gr s = Some v -> ensure_gr_g c s = s.
  Proof. unfold ensure_gr_g. intros ->. reflexivity. Qed.

  (* C12.3 *)
  Theorem filter_autotransforms_gen (c : configA) (s : stateA) :
    t_gr s = None ->
    fourier_filter c s = fourier_filter c (fst (transform_merged c s)) /\
    t_gr (fst (fourier_filter c s)) = Some (T_g c s).
  Proof.
    intros E. rewrite transform_is_library_call_gen. cbn [fst].
    rewrite (fourier_filter_eq_g c s), (fourier_filter_eq_g c (set_gr s (Some (T_g c s)))).
    rewrite (ensure_gr_none_g c s E).
    rewrite (ensure_gr_some_g c (set_gr s (Some (T_g c s))) (T_g c s)) by reflexivity.
    split; reflexivity.
  Qed.

  Lemma filter_call_ext_g (c : configA) (s s' : stateA) rg :
    t_sq s = t_sq s' -> filter_call_g c s rg = filter_call_g c s' rg.
  Proof. unfold filter_call_g. intros ->. reflexivity. Qed.

  (* C12.4 invariants *)
  Definition Inv_g (c : configA) (s0 s : stateA) : Prop :=
    t_sq s = t_sq s0 /\ t_qsq s = t_qsq s0 /\ (t_gr s = t_gr s0 \/ t_gr s = Some (T_g c s0)).
  Definition gr_ok_g (c : configA) (s0 s : stateA) : Prop := t_gr s = None \/ t_gr s = Some (T_g c s0).

  Lemma step_t_sq_g (c : configA) (s : stateA) (o : opA) :
    t_sq (step c s o) = t_sq s /\ t_qsq (step c s o) = t_qsq s.
  Proof.
    destruct o as [| |q sq r|q sq|r gr]; cbn [step].
    - rewrite transform_is_library_call_gen. split; reflexivity.
    - rewrite fourier_filter_eq_g. cbn [fst with_filter_g t_sq t_qsq]. unfold ensure_gr_g.
      destruct (t_gr s); split; reflexivity.
    - unfold apply_lorch. destruct (q2r rS (c_fn c) q sq r None (lorch_kw c)) as [[r' g] e]. split; reflexivity.
    - unfold add_keen_fq. destruct (S_to_FK q sq None (conv_kw c)) as [fq e]. split; reflexivity.
    - unfold add_keen_gr. destruct (gconv (c_fn c) gGK r gr None (conv_kw c)) as [gk e]. split; reflexivity.
  Qed.

  Lemma step_t_gr_g (c : configA) (s : stateA) (o : opA) :
    t_gr (step c s o) = t_gr s \/ t_gr (step c s o) = Some (T_g c s).
  Proof.
    destruct o as [| |q sq r|q sq|r gr]; cbn [step].
    - right. rewrite transform_is_library_call_gen. reflexivity.
    - rewrite fourier_filter_eq_g. cbn [fst with_filter_g t_gr]. unfold ensure_gr_g.
      destruct (t_gr s) eqn:E; [left; exact E | right; reflexivity].
    - left. unfold apply_lorch. destruct (q2r rS (c_fn c) q sq r None (lorch_kw c)) as [[r' g] e]. reflexivity.
    - left. unfold add_keen_fq. destruct (S_to_FK q sq None (conv_kw c)) as [fq e]. reflexivity.
    - left. unfold add_keen_gr. destruct (gconv (c_fn c) gGK r gr None (conv_kw c)) as [gk e]. reflexivity.
  Qed.

  Lemma inv_step_g (c : configA) (s0 s : stateA) (o : opA) : Inv_g c s0 s -> Inv_g c s0 (step c s o).
  Proof.
    intros (H1 & H2 & H3). destruct (step_t_sq_g c s o) as [E1 E2].
    split; [congruence|]. split; [congruence|].
    destruct (step_t_gr_g c s o) as [E|E]; rewrite E.
    - exact H3.
    - right. f_equal. apply T_ext_g. exact H1.
  Qed.

  Lemma gr_ok_step_g (c : configA) (s0 s : stateA) (o : opA) :
    t_sq s = t_sq s0 -> gr_ok_g c s0 s -> gr_ok_g c s0 (step c s o).
  Proof.
    intros H1 H3. unfold gr_ok_g. destruct (step_t_gr_g c s o) as [E|E]; rewrite E.
    - exact H3.
    - right. f_equal. apply T_ext_g. exact H1.
  Qed.

  Lemma inv_refl_g (c : configA) (s0 : stateA) : Inv_g c s0 s0.
  Proof. split; [reflexivity|]. split; [reflexivity|]. left; reflexivity. Qed.

  Lemma inv_fold_g (c : configA) (s0 : stateA) (ops : list opA) :
    forall s, Inv_g c s0 s -> Inv_g c s0 (fold_left (step c) ops s).
  Proof.
    induction ops as [|o ops IH]; intros s HI; cbn [fold_left]; [exact HI|]. apply IH. apply inv_step_g. exact HI.
  Qed.

  Lemma gr_ok_fold_g (c : configA) (s0 : stateA) (ops : list opA) :
    forall s, t_sq s = t_sq s0 -> gr_ok_g c s0 s -> gr_ok_g c s0 (fold_left (step c) ops s).
  Proof.
    induction ops as [|o ops IH]; intros s H1 HG; cbn [fold_left]; [exact HG|]. apply IH.
    - rewrite (proj1 (step_t_sq_g c s o)). exact H1.
    - apply gr_ok_step_g; assumption.
  Qed.

  Theorem inv_run_any_gen (c : configA) (s0 : stateA) (ops : list opA) : Inv_g c s0 (run c s0 ops).
  Proof. unfold run. apply inv_fold_g. apply inv_refl_g. Qed.

  Theorem inv_run_gen (c : configA) (s0 : stateA) (ops : list opA) :
    (t_gr s0 = None \/ t_gr s0 = Some (T_g c s0)) ->
    Inv_g c s0 (run c s0 ops) /\
    (t_gr (run c s0 ops) = None \/ t_gr (run c s0 ops) = Some (T_g c s0)).
  Proof.
    intros H0. split; [apply inv_run_any_gen|]. unfold run.
    apply (gr_ok_fold_g c s0 ops s0); [reflexivity | exact H0].
  Qed.

  (* C12.5 history independence *)
  Theorem transform_history_independent_gen (c : configA) (s0 : stateA) (ops : list opA) :
    snd (transform_merged c (run c s0 ops)) = T_g c s0.
  Proof.
    rewrite transform_is_library_call_gen. cbn [snd]. apply T_ext_g.
    exact (proj1 (inv_run_any_gen c s0 ops)).
  Qed.

  Lemma set_gr_same_g (s : stateA) v : t_gr s = v -> set_gr s v = s.
  Proof. intros <-. destruct s; reflexivity. Qed.

  Lemma filter_from_ok_g (c : configA) (s0 s : stateA) :
    t_sq s = t_sq s0 -> gr_ok_g c s0 s ->
    fourier_filter c s =
      let o := filter_call_g c s0 (T_g c s0) in
      (with_filter_g (set_gr s (Some (T_g c s0))) o, filter_ret_g o).
  Proof.
    intros H1 HG. rewrite fourier_filter_eq_g. cbn zeta.
    assert (ES : ensure_gr_g c s = set_gr s (Some (T_g c s0))).
    { destruct HG as [E|E].
      - rewrite (ensure_gr_none_g c s E). rewrite (T_ext_g c s s0 H1). reflexivity.
      - rewrite (ensure_gr_some_g c s _ E). symmetry. apply set_gr_same_g. exact E. }
    rewrite ES. cbn [set_gr t_gr curve_or_empty opt_or].
    rewrite (filter_call_ext_g c (set_gr s (Some (T_g c s0))) s0 (T_g c s0)) by exact H1. reflexivity.
  Qed.

  Lemma Fout_eq_g (c : configA) (s0 : stateA) :
    Fout_g c s0 = filter_ret_g (filter_call_g c s0 (T_g c s0)).
  Proof.
    unfold Fout_g. rewrite (filter_from_ok_g c s0 (set_gr s0 (Some (T_g c s0))));
      [reflexivity | reflexivity | right; reflexivity].
  Qed.

  Theorem filter_history_independent_gen (c : configA) (s0 : stateA) (ops : list opA) :
    (t_gr s0 = None \/ t_gr s0 = Some (T_g c s0)) ->
    let res := fourier_filter c (run c s0 ops) in
    let ref := fourier_filter c (set_gr s0 (Some (T_g c s0))) in
    snd res = snd ref /\
    t_ft (fst res) = t_ft (fst ref) /\ t_sqft (fst res) = t_sqft (fst ref) /\
    t_grft (fst res) = t_grft (fst ref) /\
    t_gr (fst res) = Some (T_g c s0).
  Proof.
    intros H0. destruct (inv_run_gen c s0 ops H0) as [(H1 & _ & _) HG]. cbn zeta.
    rewrite (filter_from_ok_g c s0 (run c s0 ops) H1 HG).
    rewrite (filter_from_ok_g c s0 (set_gr s0 (Some (T_g c s0)))); [| reflexivity | right; reflexivity].
    repeat split.
  Qed.

  (* C12.6 idempotence *)
  Theorem step_idempotent_gen (c : configA) (s : stateA) (o : opA) : step c (step c s o) o = step c s o.
  Proof.
    destruct o as [| |q sq r|q sq|r gr]; cbn [step].
    - rewrite !transform_is_library_call_gen. cbn [fst].
      rewrite (T_ext_g c (set_gr s (Some (T_g c s))) s) by reflexivity. reflexivity.
    - rewrite (fourier_filter_eq_g c s). cbn [fst].
      set (s' := ensure_gr_g c s).
      assert (EG : exists v, t_gr s' = Some v).
      { unfold s', ensure_gr_g. destruct (t_gr s) as [v|] eqn:E; [exists v; exact E | eexists; reflexivity]. }
      destruct EG as [v EG].
      set (o := filter_call_g c s' (curve_or_empty (t_gr s'))).
      rewrite (fourier_filter_eq_g c (with_filter_g s' o)). cbn [fst].
      rewrite (ensure_gr_some_g c (with_filter_g s' o) v) by exact EG.
      cbn [with_filter_g t_gr]. rewrite (filter_call_ext_g c (with_filter_g s' o) s') by reflexivity.
      fold o. reflexivity.
    - unfold apply_lorch. destruct (q2r rS (c_fn c) q sq r None (lorch_kw c)) as [[r' g] e]. reflexivity.
    - unfold add_keen_fq. destruct (S_to_FK q sq None (conv_kw c)) as [fq e]. reflexivity.
    - unfold add_keen_gr. destruct (gconv (c_fn c) gGK r gr None (conv_kw c)) as [gk e]. reflexivity.
  Qed.

  (* ================= the command-line flow is a run of the state machine ================= *)
  Theorem cli_is_a_run_gen (c : configA) filter_on lorch_on (s0 : stateA) :
    fst (cli_after_merge c filter_on lorch_on s0) = run c s0 (cli_ops c filter_on lorch_on s0).
  Proof.
    unfold cli_after_merge, cli_ops, run.
    set (s1 := fst (transform_merged c s0)).
    set (fl1 := flow_of_merged s1).
    destruct (cli_filter c filter_on s1 fl1) as [s2 fl2] eqn:EF.
    destruct (cli_lorch c lorch_on s2 fl2) as [s3 fl3] eqn:EL.
    cbn [fst].
    rewrite !fold_left_app. cbn [fold_left step]. fold s1.
    assert (H2 : fold_left (step c) (if filter_on then [OFilter] else []) s1 = s2).
    { unfold cli_filter in EF. destruct filter_on; cbn [fold_left step].
      - destruct (fourier_filter c s1) as [s' o]. injection EF as <- _. reflexivity.
      - injection EF as <- _. reflexivity. }
    rewrite H2.
    assert (H3 : fold_left (step c) (if lorch_on then [OLorch (f_q fl2) (f_sq fl2) (f_r fl2)] else []) s2 = s3).
    { unfold cli_lorch in EL. destruct lorch_on; cbn [fold_left step].
      - destruct (apply_lorch c s2 (f_q fl2) (f_sq fl2) (f_r fl2)) as [s' rg]. injection EL as <- _. reflexivity.
      - injection EL as <- _. reflexivity. }
    rewrite H3. reflexivity.
  Qed.

  (* the Keen outputs of the command-line run are the conversions of its final curves *)
  Lemma cli_keen_outputs_gen (c : configA) filter_on lorch_on (s0 : stateA) :
    let '(s, fl) := cli_after_merge c filter_on lorch_on s0 in
    t_fq s = Some (f_q fl, fst (S_to_FK (f_q fl) (f_sq fl) None (conv_kw c))) /\
    t_gk s = Some (f_r fl, fst (gconv (c_fn c) gGK (f_r fl) (f_gr fl) None (conv_kw c))).
  Proof.
    unfold cli_after_merge.
    destruct (cli_filter c filter_on _ _) as [s2 fl2].
    destruct (cli_lorch c lorch_on s2 fl2) as [s3 fl3].
    unfold add_keen_gr, add_keen_fq.
    destruct (S_to_FK (f_q fl3) (f_sq fl3) None (conv_kw c)) as [fq dfq] eqn:E1.
    destruct (gconv (c_fn c) gGK (f_r fl3) (f_gr fl3) None (conv_kw c)) as [gk dgk] eqn:E2.
    cbn. split; reflexivity.
  Qed.
End GenericStog.

(* ---------- non-vacuity, on an abstract carrier ---------- *)
Section NonVacuous.
  Context {A : Type} `{Num A}.
  Variables (a b : A).

  Definition gen_config : @config A :=
    {| c_qmin := None; c_qmax := None; c_rho := one; c_bcoh := one; c_btot := one; c_dr := [a; b];
       c_lowq := true; c_lorch := false; c_cutoff := one; c_fn := gG;
       c_merge := {| m_Y := None; m_F := None |} |}.
  (* a freshly merged state: only the merged curves are present *)
  Definition gen_state : @state A :=
    {| s_xmin := one; s_xmax := one; s_recip := ([], [], []); s_sq := ([], [], []);
       t_sq := Some ([a; b], [b; a]); t_qsq := Some ([a; b], [a; a]);
       t_ft := None; t_sqft := None; t_fq := None;
       t_gr := None; t_grft := None; t_grl := None; t_gk := None |}.

  (* the hypothesis of inv_run_gen / filter_history_independent_gen holds, and the
     conclusion is not trivial: a filter step fills the empty t_gr slot *)
  Example filter_history_independent_gen_nonvacuous :
    (t_gr gen_state = None \/ t_gr gen_state = Some (T_g gen_config gen_state)) /\
    t_gr (run gen_config gen_state [OFilter]) = Some (T_g gen_config gen_state) /\
    t_gr (run gen_config gen_state [OFilter]) <> t_gr gen_state /\
    fst (T_g gen_config gen_state) = [a; b].
  Proof.
    split; [left; reflexivity|].
    assert (E : t_gr (run gen_config gen_state [OFilter]) = Some (T_g gen_config gen_state)).
    { change (run gen_config gen_state [OFilter]) with (fst (fourier_filter gen_config gen_state)).
      exact (proj2 (filter_autotransforms_gen gen_config gen_state eq_refl)). }
    split; [exact E|]. split; [rewrite E; discriminate|].
    unfold T_g, gen_state, gen_config. cbn [t_sq curve_or_empty opt_or c_fn c_dr q2r].
    unfold S_to_G, S_to_F, F_to_G, fourier_transform.
    cbn [dflt_zeros]. destruct (apply_cropping _ _ _ _ _) as [[x y] e]. reflexivity.
  Qed.

  Example step_idempotent_gen_nonvacuous :
    step gen_config gen_state OFilter <> gen_state /\
    step gen_config (step gen_config gen_state OFilter) OFilter = step gen_config gen_state OFilter.
  Proof.
    split; [|apply step_idempotent_gen]. intros E. apply (f_equal t_gr) in E.
    cbn [step] in E. rewrite (proj2 (filter_autotransforms_gen gen_config gen_state eq_refl)) in E.
    discriminate E.
  Qed.

  Example cli_is_a_run_gen_nonvacuous :
    length (cli_ops gen_config true true gen_state) = 5.
  Proof.
    unfold cli_ops. destruct (cli_filter _ _ _ _) as [s2 fl2]. destruct (cli_lorch _ _ _ _) as [s3 fl3].
    reflexivity.
  Qed.
End NonVacuous.
