(* WindowM.v -- the 24 named transforms called with the window keywords xmin / xmax.
   transformer.py: every named transform hands **kwargs on to F_to_G / G_to_F, which hand them on to
   fourier_transform, whose parameters xmin / xmax they bind; the converter calls receive the same
   **kwargs and ignore those two keys.  So the window acts on the core transform only:
       named_w = conversion ; core transform with the caller's window ; conversion.
   Definitions only. *)
From Coq Require Import List.
From PyStoG Require Import Num ConverterM TransformerM.
Import ListNotations.

Section Window.
  Context {A : Type} `{Num A}.
  Local Open Scope num_scope.

  Definition F_to_G_w (xmin xmax : option A) : tr := fun q fq r dfq k =>
    let '(r, gr, dgr) := fourier_transform q fq r xmin xmax dfq k in
    (r, vscale_r two_over_pi gr, vscale_r two_over_pi dgr).
  Definition G_to_F_w (xmin xmax : option A) : tr := fun r gr q dgr k =>
    fourier_transform r gr q xmin xmax dgr k.

  Definition q2r_w (xmin xmax : option A) (X : rfun) (Y : gfun) : tr := fun q v r dy k =>
    match X, Y with
    | rF, gG => F_to_G_w xmin xmax q v r dy k
    | _, _ =>
      let '(f, df) := match X with rF => (v, dy) | _ => let '(f, df) := rconv X rF q v dy k in (f, Some df) end in
      let '(r', G, dG) := F_to_G_w xmin xmax q f r df k in
      match Y with
      | gG => (r', G, dG)
      | _ => let '(g, dg) := gconv gG Y r' G (Some dG) k in (r', g, dg)
      end
    end.
  Definition r2q_w (xmin xmax : option A) (X : gfun) (Y : rfun) : tr := fun r v q dy k =>
    match X, Y with
    | gG, rF => G_to_F_w xmin xmax r v q dy k
    | _, _ =>
      let '(G, dG) := match X with gG => (v, dy) | _ => let '(G, dG) := gconv X gG r v dy k in (G, Some dG) end in
      let '(q', F, dF) := G_to_F_w xmin xmax r G q dG k in
      match Y with
      | rF => (q', F, dF)
      | _ => let '(f, df) := rconv rF Y q' F (Some dF) k in (q', f, df)
      end
    end.
End Window.
