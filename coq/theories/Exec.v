(* Exec.v -- the binary64 instance of the model, run by vm_compute on the
   cases the harness writes, and compared *inside Coq* with what the
   implementation returned.  Only failing indices and the largest scaled
   deviation leave Coq. *)
From Coq Require Import List ZArith Bool PrimFloat.
From PyStoG Require Import WindowM EntryM.
From PyStoG Require Import Num NumF ConverterM.
Import ListNotations.

Record rawcase := mk {
  fl : list (list float);   (* array inputs                 *)
  sc : list float;          (* scalar inputs                *)
  zs : list Z;              (* discrete inputs / selectors  *)
  out : list (list float)   (* what the implementation returned *)
}.

Definition fnth (l : list float) (i : nat) : float := nth i l PrimFloat.nan.
Definition lnth (l : list (list float)) (i : nat) : list float := nth i l [].
Definition znth (l : list Z) (i : nat) : Z := nth i l 0%Z.

Definition is_nan (x : float) : bool := negb (PrimFloat.eqb x x).
Definition fmax (a b : float) : float := if PrimFloat.ltb a b then b else a.

(* scaled deviation of one entry: 0 when equal (covers infinities) or both
   NaN, infinity when exactly one is NaN, |a-b|/scale otherwise *)
Definition dev1 (scale a b : float) : float :=
  if PrimFloat.eqb a b then 0%float
  else if is_nan a then (if is_nan b then 0%float else PrimFloat.infinity)
  else if is_nan b then PrimFloat.infinity
  else PrimFloat.div (PrimFloat.abs (PrimFloat.sub a b)) scale.

(* pointwise scale: max(1, |impl|) *)
Definition dev_pt (a b : float) : float := dev1 (fmax 1%float (PrimFloat.abs b)) a b.

Fixpoint devs (f : float -> float -> float) (l m : list float) : float :=
  match l, m with
  | [], [] => 0%float
  | a :: l, b :: m => fmax (f a b) (devs f l m)
  | _, _ => PrimFloat.infinity       (* shape mismatch *)
  end.

Definition tol : float := 0x1.12e0be826d695p-30.  (* 1e-9 *)

(* run a checker over the cases: indices whose deviation exceeds tol (or is
   NaN), and the largest deviation among the others *)
Fixpoint run_from (chk : rawcase -> float) (i : nat) (cs : list rawcase) : list nat * float :=
  match cs with
  | [] => ([], 0%float)
  | c :: cs =>
      let d := chk c in
      let '(bad, mx) := run_from chk (S i) cs in
      if PrimFloat.leb d tol then (bad, fmax d mx) else (i :: bad, mx)
  end.
Definition run chk cs := run_from chk 0 cs.

Definition opt_dy (has : Z) (d : list float) : option (list float) :=
  if Z.eqb has 0 then None else Some d.

Definition rfun_of (z : Z) : rfun :=
  match z with 0%Z => rS | 1%Z => rF | 2%Z => rFK | _ => rDCS end.
Definition gfun_of (z : Z) : gfun :=
  match z with 0%Z => gg | 1%Z => gG | _ => gGK end.

Definition mkkw (s : list float) (lo om : Z) : kw float :=
  {| rho := fnth s 0; bcoh := fnth s 1; btot := fnth s 2;
     lorch := negb (Z.eqb lo 0); omitted := negb (Z.eqb om 0) |}.

(* ---- conversions (C03, C04, C06) ----
   fl = [x; y; dy]  sc = [rho; bcoh; btot]  zs = [space; X; Y; has_dy; channel]
   out = [values; uncertainties]; channel 0: values, 1: uncertainties, 2: both *)
Definition chk_conv (c : rawcase) : float :=
  let k := mkkw (sc c) 0 0 in
  let x := lnth (fl c) 0 in let y := lnth (fl c) 1 in
  let dy := opt_dy (znth (zs c) 3) (lnth (fl c) 2) in
  let '(v, e) :=
    if Z.eqb (znth (zs c) 0) 0
    then rconv (rfun_of (znth (zs c) 1)) (rfun_of (znth (zs c) 2)) x y dy k
    else gconv (gfun_of (znth (zs c) 1)) (gfun_of (znth (zs c) 2)) x y dy k in
  let dv := devs dev_pt v (lnth (out c) 0) in
  let de := devs dev_pt e (lnth (out c) 1) in
  match znth (zs c) 4 with 0%Z => dv | 1%Z => de | _ => fmax dv de end.

(* ================= transforms ================= *)
From PyStoG Require Import TransformerM.

Definition fabs := PrimFloat.abs.
Definition tiny : float := 0x1p-1000.

(* sum |dx| (|y1|+|y0|)/2 : magnitude of the terms of a trapezoid sum *)
Fixpoint atrapz (xs ys : list float) : float :=
  match xs, ys with
  | x0 :: ((x1 :: _) as xs'), y0 :: ((y1 :: _) as ys') =>
      (fabs (x1 - x0) * (fabs y1 + fabs y0) / 2 + atrapz xs' ys')%float
  | _, _ => 0%float
  end.

(* magnitude of the terms of the low-x correction at one output point *)
Definition low_x_scale (lorchf : bool) (xmin xmax yin0 x : float) : float :=
  (let s0 := fabs (yin0 / xmin) + 1 in
   let a := piF / xmax in
   let v := xmin * x in
   if lorchf then
     let vm := xmin * (x - a) in let vp := xmin * (x + a) in
     let t1 := (fabs vm + 2) / ((x - a) * (x - a)) in
     let t2 := (fabs vp + 2) / ((x + a) * (x + a)) in
     (t1 + t2) / (2 * a) * s0 / fabs xmin + (1 / fabs (x - a) + 1 / fabs (x + a)) / (2 * a)
   else
     (2 * fabs v + fabs (v * v - 2) + 2) / fabs (x * x * x) * s0 / fabs xmin
     + (1 + fabs v) / (x * x))%float.

(* per-output-point magnitudes for fourier_transform: values, uncertainties *)
Definition ft_scales (xin yin xout : list float) (xmin xmax : option float)
    (dy : option (list float)) (k : kw float) : list float * list float :=
  let xmax' := match xmax with Some v => v | None => vmax xin end in
  let xmin' := match xmin with Some v => v | None => vmin xin end in
  let '(xc, yc, ec) := apply_cropping xin yin xmin' xmax' dy in
  let factor := if lorch k then lorch_factor xmax' xc else ones_like yc in
  let fy := vmul factor yc in
  let fe := vmul factor ec in
  let sv := atrapz xc fy in
  let se := PrimFloat.sqrt (etrapz xc (map (fun e => e * e)%float fe)) in
  (map (fun x => if omitted k
                 then (sv + low_x_scale (lorch k) (vmin xc) (vmax xc) (hd 0%float yc) x)%float
                 else sv) xout,
   map (fun _ => se) xout).

Definition dev_sc (a b s : float) : float := dev1 (s + tiny)%float a b.
Definition devs3 (l m s : list float) : float :=
  (fix go l m s := match l, m, s with
    | [], [], _ => 0%float
    | a :: l, b :: m, c :: s => fmax (dev_sc a b c) (go l m s)
    | _, _, _ => PrimFloat.infinity end) l m s.
Definition dev_exact (a b : float) : float := dev1 tiny a b.

Definition opt_f (has : Z) (v : float) : option float := if Z.eqb has 0 then None else Some v.
Definition sel_channel (ch : Z) (dx dv de : float) : float :=
  match ch with 0%Z => fmax dx dv | 1%Z => fmax dx de | _ => fmax dx (fmax dv de) end.

(* ---- fourier_transform (C02, C07, C13, C14, C15)
   fl = [xin; yin; dy; xout]  sc = [xmin; xmax]
   zs = [has_xmin; has_xmax; has_dy; lorch; omitted; channel]  out = [xout; yout; eout] *)
Definition chk_ft (c : rawcase) : float :=
  let z := zs c in
  let k := mkkw [1; 1; 1]%float (znth z 3) (znth z 4) in
  let xin := lnth (fl c) 0 in let yin := lnth (fl c) 1 in let xout := lnth (fl c) 3 in
  let dy := opt_dy (znth z 2) (lnth (fl c) 2) in
  let xmin := opt_f (znth z 0) (fnth (sc c) 0) in
  let xmax := opt_f (znth z 1) (fnth (sc c) 1) in
  let '(xo, yo, eo) := fourier_transform xin yin xout xmin xmax dy k in
  let '(sv, se) := ft_scales xin yin xout xmin xmax dy k in
  sel_channel (znth z 5)
    (devs dev_exact xo (lnth (out c) 0))
    (devs3 yo (lnth (out c) 1) sv)
    (devs3 eo (lnth (out c) 2) se).

(* ---- apply_cropping (C13): fl = [x; y; dy] sc = [xmin; xmax] zs = [has_dy] out = [x'; y'; e'] *)
Definition chk_crop (c : rawcase) : float :=
  let '(x, y, e) := apply_cropping (lnth (fl c) 0) (lnth (fl c) 1) (fnth (sc c) 0) (fnth (sc c) 1)
                      (opt_dy (znth (zs c) 0) (lnth (fl c) 2)) in
  fmax (devs dev_exact x (lnth (out c) 0))
       (fmax (devs dev_exact y (lnth (out c) 1)) (devs dev_exact e (lnth (out c) 2))).

(* ---- the 24 named transforms (C01, C05, C15)
   fl = [xin; yin; dy; xout]  sc = [rho; bcoh; btot]
   zs = [dir; X; Y; has_dy; lorch; omitted; channel]   out = [xout; y; e]
   The scale of each output entry is obtained by pushing the magnitude of the
   quadrature terms through the same (affine) post-conversion. *)
Definition chk_named (c : rawcase) : float :=
  let z := zs c in
  let k := mkkw (sc c) (znth z 4) (znth z 5) in
  let xin := lnth (fl c) 0 in let yin := lnth (fl c) 1 in let xout := lnth (fl c) 3 in
  let dy := opt_dy (znth z 3) (lnth (fl c) 2) in
  let q2rdir := Z.eqb (znth z 0) 0 in
  (* window keywords given to the named transform: zs[7], zs[8] presence, sc[3], sc[4] values (absent in older cases: none) *)
  let wlo := if Z.eqb (znth z 7) 1 then Some (fnth (sc c) 3) else None in
  let whi := if Z.eqb (znth z 8) 1 then Some (fnth (sc c) 4) else None in
  let '(xo, yo, eo) :=
    if q2rdir then q2r_w wlo whi (rfun_of (znth z 1)) (gfun_of (znth z 2)) xin yin xout dy k
    else r2q_w wlo whi (gfun_of (znth z 1)) (rfun_of (znth z 2)) xin yin xout dy k in
  (* scales *)
  let '(py, pe) :=
    if q2rdir then rconv (rfun_of (znth z 1)) rF xin yin dy k
    else gconv (gfun_of (znth z 1)) gG xin yin dy k in
  let '(_, T, E) := fourier_transform xin py xout wlo whi (Some pe) k in
  let '(sv, se) := ft_scales xin py xout wlo whi (Some pe) k in
  let c0 := if q2rdir then two_over_pi else 1%float in
  let T := vscale_r c0 T in
  let T2 := vadd T (vscale_r c0 sv) in
  let post := if q2rdir then gconv gG (gfun_of (znth z 2)) else rconv rF (rfun_of (znth z 2)) in
  let '(v1, _) := post xout T (Some (vscale_r c0 se)) k in
  let '(v2, e2) := post xout T2 (Some (vscale_r c0 se)) k in
  let scv := map2 (fun a b => fabs (a - b)%float) v2 v1 in
  sel_channel (znth z 6)
    (devs dev_exact xo (lnth (out c) 0))
    (devs3 yo (lnth (out c) 1) scv)
    (devs3 eo (lnth (out c) 2) e2).

(* ================= Fourier filter (C08, C09) ================= *)
From PyStoG Require Import FilterM.

Definition maxabs (l : list float) : float := fold_left (fun m x => fmax m (fabs x)) l 0%float.
Definition span (l : list float) : float :=
  (fix go l := match l with x0 :: ((x1 :: _) as l') => (fabs (x1 - x0) + go l')%float | _ => 0%float end) l.

(* fl = [r; gr; q; y; dgr; dy]  sc = [rho; bcoh; btot; cutoff]
   zs = [R; Q; has_dgr; has_dy; lorch; omitted; channel]
   out = [q_ft; y_ft; q; y; r; g; dy_ft; dy; dg]
   channel 0: the six value arrays, 1: the three uncertainty arrays, 2: all *)
Definition chk_filter (c : rawcase) : float :=
  let z := zs c in
  let k := mkkw (sc c) (znth z 4) (znth z 5) in
  let cutoff := fnth (sc c) 3 in
  let r := lnth (fl c) 0 in let gr := lnth (fl c) 1 in let q := lnth (fl c) 2 in let y := lnth (fl c) 3 in
  let dgr := opt_dy (znth z 2) (lnth (fl c) 4) in
  let dy := opt_dy (znth z 3) (lnth (fl c) 5) in
  let Rf := gfun_of (znth z 0) in let Qf := rfun_of (znth z 1) in
  let o := filter_variant Rf Qf r gr q y cutoff dgr dy k in
  (* --- magnitudes, from the g / Q[S-1] core --- *)
  let '(g0, dg0) := gconv Rf gg r gr dgr k in
  let '(f0, df0) := rconv Qf rF q y dy k in
  let oc := g_using_F r g0 q f0 cutoff (Some dg0) (Some df0) k in
  let '(rt, gt, dgt) := apply_cropping r g0 0%float cutoff (Some dg0) in
  let '(Gtm, dGtm) := g_to_G rt (vadd_s 1%float gt) (Some dgt) k in
  let lowx := if omitted k then maxabs (map (low_x_scale (lorch k) (vmin rt) (vmax rt) (hd 0%float Gtm)) q) else 0%float in
  let sF := (atrapz rt Gtm + maxabs f0 + lowx)%float in
  let lowx2 := if omitted k then maxabs (map (low_x_scale (lorch k) (vmin (q_c oc)) (vmax (q_c oc)) (hd 0%float (y_c oc))) (r_o oc)) else 0%float in
  let sG := (two_over_pi * (atrapz (q_c oc) (y_c oc) + sF * span (q_c oc) + lowx2))%float in
  let seF := (PrimFloat.sqrt (etrapz rt (map (fun e => e * e)%float dGtm)) + maxabs df0)%float in
  let seG := (two_over_pi * PrimFloat.sqrt (etrapz (q_c oc) (map (fun _ => 4 * seF * seF)%float (q_c oc))))%float in
  let sc_recip (qq yy : list float) :=
    let '(v1, _) := rconv rF Qf qq yy None k in
    let '(v2, e2) := rconv rF Qf qq (vadd_s sF yy) (Some (map (fun _ => seF) qq)) k in
    (map2 (fun a b => fabs (a - b)%float) v2 v1, e2) in
  let '(s1, e1) := sc_recip (q_ft oc) (y_ft oc) in
  let '(s2, e2) := sc_recip (q_c oc) (y_c oc) in
  let '(G1, _) := g_to_G (r_o oc) (g_o oc) None k in
  let '(w1, _) := gconv gG Rf (r_o oc) G1 None k in
  let '(w2, e3) := gconv gG Rf (r_o oc) (vadd_s sG G1) (Some (map (fun _ => seG) (r_o oc))) k in
  let s3 := map2 (fun a b => fabs (a - b)%float) w2 w1 in
  let ou := out c in
  let dgrid := fmax (devs dev_exact (q_ft o) (lnth ou 0)) (fmax (devs dev_exact (q_c o) (lnth ou 2)) (devs dev_exact (r_o o) (lnth ou 4))) in
  let dval := fmax (devs3 (y_ft o) (lnth ou 1) s1) (fmax (devs3 (y_c o) (lnth ou 3) s2) (devs3 (g_o o) (lnth ou 5) s3)) in
  let derr := fmax (devs3 (dy_ft o) (lnth ou 6) e1) (fmax (devs3 (dy_c o) (lnth ou 7) e2) (devs3 (dg_o o) (lnth ou 8) e3)) in
  sel_channel (znth z 6) dgrid dval derr.

(* ================= StoG: ingestion, merge, workflow steps (C10, C11, C12, C17) ================= *)
From PyStoG Require Import StogM.

Definition fopt (has : Z) (v : float) : option float := if Z.eqb has 0 then None else Some v.
Definition zb (z : Z) : bool := negb (Z.eqb z 0).

(* one add_dataset step from the implementation's own pre-state
   fl = [x; y; dy; pre_rx; pre_ry; pre_re; pre_sx; pre_sy; pre_se]
   sc = [d_qmin; d_qmax; yscale; yoffset; xoffset; gqmin; gqmax; rho; bcoh; btot; pre_xmin; pre_xmax]
   zs = [has_dy; has_qmin; has_qmax; has_Y; has_scale; has_offset; has_X; has_xoffset; kind; has_gqmin; has_gqmax]
   out = [rx; ry; re; sx; sy; se; [xmin; xmax]] *)
Definition mk_config (gqmin gqmax : option float) (rho bcoh btot : float) (dr : list float)
    (lowq : bool) (cutoff : float) (fn : gfun) (m : mopts) : config :=
  {| c_qmin := gqmin; c_qmax := gqmax; c_rho := rho; c_bcoh := bcoh; c_btot := btot; c_dr := dr;
     c_lowq := lowq; c_lorch := false; c_cutoff := cutoff; c_fn := fn; c_merge := m |}.
Definition no_mopts : @mopts float := {| m_Y := None; m_F := None |}.

Definition dev3 (a : list float * list float * list float) (l : list (list float)) (i : nat) : float :=
  let '(x, y, e) := a in
  fmax (devs dev_exact x (lnth l i)) (fmax (devs dev_pt y (lnth l (i + 1))) (devs dev_pt e (lnth l (i + 2)))).

Definition chk_add (c : rawcase) : float :=
  let z := zs c in let s := sc c in let f := fl c in
  let cfg := mk_config (fopt (znth z 9) (fnth s 5)) (fopt (znth z 10) (fnth s 6)) (fnth s 7) (fnth s 8) (fnth s 9)
               [] false 0%float gg no_mopts in
  let d := {| d_x := lnth f 0; d_y := lnth f 1; d_dy := opt_dy (znth z 0) (lnth f 2);
              d_qmin := fopt (znth z 1) (fnth s 0); d_qmax := fopt (znth z 2) (fnth s 1);
              d_Y := if zb (znth z 3) then Some {| o_scale := fopt (znth z 4) (fnth s 2); o_offset := fopt (znth z 5) (fnth s 3) |} else None;
              d_X := if zb (znth z 6) then Some (fopt (znth z 7) (fnth s 4)) else None;
              d_kind := rfun_of (znth z 8) |} in
  let pre := {| s_xmin := fnth s 10; s_xmax := fnth s 11;
                s_recip := (lnth f 3, lnth f 4, lnth f 5); s_sq := (lnth f 6, lnth f 7, lnth f 8);
                t_sq := None; t_qsq := None; t_ft := None; t_sqft := None; t_fq := None;
                t_gr := None; t_grft := None; t_grl := None; t_gk := None |} in
  (* zs[8] = 4: the entry carried an unknown function name and was rejected (EntryM.reject_entry) *)
  let post := if Z.eqb (znth z 8) 4 then reject_entry pre d else add_dataset cfg pre d in
  fmax (dev3 (s_recip post) (out c) 0)
       (fmax (dev3 (s_sq post) (out c) 3)
             (devs dev_exact [s_xmin post; s_xmax post] (lnth (out c) 6))).

(* merge_data from the implementation's own sq_individuals
   fl = [sx; sy; se]  sc = [Yscale; Yoffset; Fscale; Foffset; rho; bcoh; btot]
   zs = [has_Y; has_Yscale; has_Yoffset; has_F; has_FY; has_Fscale; has_Foffset]
   out = [sorted sx; sy; se; q; sq; q2; fofq] *)
Definition chk_merge (c : rawcase) : float :=
  let z := zs c in let s := sc c in let f := fl c in
  let m := {| m_Y := if zb (znth z 0) then Some {| o_scale := fopt (znth z 1) (fnth s 0); o_offset := fopt (znth z 2) (fnth s 1) |} else None;
              m_F := if zb (znth z 3) then Some (if zb (znth z 4) then Some {| o_scale := fopt (znth z 5) (fnth s 2); o_offset := fopt (znth z 6) (fnth s 3) |} else None) else None |} in
  let cfg := mk_config None None (fnth s 4) (fnth s 5) (fnth s 6) [] false 0%float gg m in
  let pre := {| s_xmin := 0%float; s_xmax := 0%float; s_recip := ([], [], []); s_sq := (lnth f 0, lnth f 1, lnth f 2);
                t_sq := None; t_qsq := None; t_ft := None; t_sqft := None; t_fq := None;
                t_gr := None; t_grft := None; t_grl := None; t_gk := None |} in
  let post := merge_data cfg pre in
  let '(q1, s1) := curve_or_empty (t_sq post) in
  let '(q2, f2) := curve_or_empty (t_qsq post) in
  fmax (dev3 (s_sq post) (out c) 0)
       (fmax (fmax (devs dev_exact q1 (lnth (out c) 3)) (devs dev_pt s1 (lnth (out c) 4)))
             (fmax (devs dev_exact q2 (lnth (out c) 5)) (devs dev_pt f2 (lnth (out c) 6)))).

(* ---- scales of named transforms / filter variants, as functions ---- *)
Definition q2r_scales (X : rfun) (Y : gfun) (xin yin xout : list float) (dy : option (list float)) (k : kw float)
  : list float * list float :=
  let '(py, pe) := rconv X rF xin yin dy k in
  let '(_, T, E) := fourier_transform xin py xout None None (Some pe) k in
  let '(sv, se) := ft_scales xin py xout None None (Some pe) k in
  let T := vscale_r two_over_pi T in
  let T2 := vadd T (vscale_r two_over_pi sv) in
  let '(v1, _) := gconv gG Y xout T (Some (vscale_r two_over_pi se)) k in
  let '(v2, e2) := gconv gG Y xout T2 (Some (vscale_r two_over_pi se)) k in
  (map2 (fun a b => fabs (a - b)%float) v2 v1, e2).

Definition filter_scales (Rf : gfun) (Qf : rfun) (r gr q y : list float) (cutoff : float)
    (dgr dy : option (list float)) (k : kw float) : list float * list float * list float :=
  let '(g0, dg0) := gconv Rf gg r gr dgr k in
  let '(f0, df0) := rconv Qf rF q y dy k in
  let oc := g_using_F r g0 q f0 cutoff (Some dg0) (Some df0) k in
  let '(rt, gt, dgt) := apply_cropping r g0 0%float cutoff (Some dg0) in
  let '(Gtm, dGtm) := g_to_G rt (vadd_s 1%float gt) (Some dgt) k in
  let lowx := if omitted k then maxabs (map (low_x_scale (lorch k) (vmin rt) (vmax rt) (hd 0%float Gtm)) q) else 0%float in
  let sF := (atrapz rt Gtm + maxabs f0 + lowx)%float in
  let lowx2 := if omitted k then maxabs (map (low_x_scale (lorch k) (vmin (q_c oc)) (vmax (q_c oc)) (hd 0%float (y_c oc))) (r_o oc)) else 0%float in
  let sG := (two_over_pi * (atrapz (q_c oc) (y_c oc) + sF * span (q_c oc) + lowx2))%float in
  let sc_recip (qq yy : list float) :=
    let '(v1, _) := rconv rF Qf qq yy None k in
    let '(v2, _) := rconv rF Qf qq (vadd_s sF yy) None k in
    map2 (fun a b => fabs (a - b)%float) v2 v1 in
  let '(G1, _) := g_to_G (r_o oc) (g_o oc) None k in
  let '(w1, _) := gconv gG Rf (r_o oc) G1 None k in
  let '(w2, _) := gconv gG Rf (r_o oc) (vadd_s sG G1) None k in
  (sc_recip (q_ft oc) (y_ft oc), sc_recip (q_c oc) (y_c oc), map2 (fun a b => fabs (a - b)%float) w2 w1).

(* ---- one workflow step from the implementation's own pre-state (C12)
   sc = [rho; bcoh; btot; cutoff]
   zs = [fn; lowq; opcode; pre-presence x9; post-presence x9]   opcode 0 Transform 1 Filter 2 Lorch 3 KeenFQ 4 KeenGR
   fl = [dr; a1; a2; a3] ++ pre curves (9 x [x; y]) ++ post curves (9 x [x; y]) ++ returned arrays (<= 4)
   titles in the order t_sq t_qsq t_ft t_sqft t_fq t_gr t_grft t_grl t_gk *)
Definition get_curve (present : Z) (f : list (list float)) (i : nat) : option (list float * list float) :=
  if zb present then Some (lnth f i, lnth f (i + 1)) else None.
Definition titles (s : @state float) : list (option (list float * list float)) :=
  [t_sq s; t_qsq s; t_ft s; t_sqft s; t_fq s; t_gr s; t_grft s; t_grl s; t_gk s].

Definition dev_curve (sc : option (list float)) (m i : option (list float * list float)) : float :=
  match m, i with
  | None, None => 0%float
  | Some (mx, my), Some (ix, iy) =>
      fmax (devs dev_exact mx ix)
           (match sc with Some s => devs3 my iy s | None => devs dev_pt my iy end)
  | _, _ => PrimFloat.infinity
  end.

Definition chk_step (c : rawcase) : float :=
  let z := zs c in let s := sc c in let f := fl c in
  let fn := gfun_of (znth z 0) in
  let cfg := mk_config None None (fnth s 0) (fnth s 1) (fnth s 2) (lnth f 0) (zb (znth z 1)) (fnth s 3) fn no_mopts in
  let pre_c := map (fun j => get_curve (znth z (3 + j)) f (4 + 2 * j)) (seq 0 9) in
  let post_c := map (fun j => get_curve (znth z (12 + j)) f (22 + 2 * j)) (seq 0 9) in
  let pc j := nth j pre_c None in
  let pre := {| s_xmin := 0%float; s_xmax := 0%float; s_recip := ([], [], []); s_sq := ([], [], []);
                t_sq := pc 0%nat; t_qsq := pc 1%nat; t_ft := pc 2%nat; t_sqft := pc 3%nat; t_fq := pc 4%nat;
                t_gr := pc 5%nat; t_grft := pc 6%nat; t_grl := pc 7%nat; t_gk := pc 8%nat |} in
  let a1 := lnth f 1 in let a2 := lnth f 2 in let a3 := lnth f 3 in
  let ret j := lnth f (40 + j) in
  let '(qm, sqm) := curve_or_empty (t_sq pre) in
  let tr_sc := fst (q2r_scales rS fn qm sqm (c_dr cfg) None (transform_kw cfg)) in
  let none9 : list (option (list float)) := map (fun _ => None) (seq 0 9) in
  let set (l : list (option (list float))) (j : nat) (v : list float) :=
    map (fun i => if Nat.eqb i j then Some v else nth i l None) (seq 0 9) in
  let '(post, scales, dret) :=
    match znth z 2 with
    | 0%Z => let '(st, (r, g)) := transform_merged cfg pre in
             (st, set none9 5%nat tr_sc, fmax (devs dev_exact r (ret 0%nat)) (devs3 g (ret 1%nat) tr_sc))
    | 1%Z => let '(st, o) := fourier_filter cfg pre in
             let pre' := match t_gr pre with Some _ => pre | None => fst (transform_merged cfg pre) end in
             let '(r, gr) := curve_or_empty (t_gr pre') in
             let '(s1, s2, s3) := filter_scales fn rS r gr qm sqm (c_cutoff cfg) None None (filter_kw cfg) in
             let sc := set (set (set none9 2%nat s1) 3%nat s2) 6%nat s3 in
             let sc := match t_gr pre with Some _ => sc | None => set sc 5%nat tr_sc end in
             (st, sc, fmax (fmax (devs dev_exact (fo_q o) (ret 0%nat)) (devs3 (fo_sq o) (ret 1%nat) s2))
                           (fmax (devs dev_exact (fo_r o) (ret 2%nat)) (devs3 (fo_gr o) (ret 3%nat) s3)))
    | 2%Z => let '(st, (r, g)) := apply_lorch cfg pre a1 a2 a3 in
             let sl := fst (q2r_scales rS fn a1 a2 a3 None (lorch_kw cfg)) in
             (st, set none9 7%nat sl, fmax (devs dev_exact r (ret 0%nat)) (devs3 g (ret 1%nat) sl))
    | 3%Z => (add_keen_fq cfg pre a1 a2, none9, 0%float)
    | _ => (add_keen_gr cfg pre a1 a2, none9, 0%float)
    end in
  fold_left fmax
    (map (fun j => dev_curve (nth j scales None) (nth j (titles post) None) (nth j post_c None)) (seq 0 9))
    dret.

(* ================= rebin (C20): fl = [x; y] sc = [xmin; xdiv; xmax] out = [xout; yout] ================= *)
From PyStoG Require Import RebinM.
Definition chk_rebin (c : rawcase) : float :=
  let '(xo, yo) := rebin (lnth (fl c) 0) (lnth (fl c) 1) (fnth (sc c) 0) (fnth (sc c) 1) (fnth (sc c) 2) in
  fmax (devs dev_exact xo (lnth (out c) 0)) (devs dev_pt yo (lnth (out c) 1)).

(* ================= configuration (C19) ================= *)
From PyStoG Require Import ConfigM.

(* zs = [has_fn; fn (0 g, 1 G, 2 GK, 3 bad); has_rmin; has_rmax; has_rdelta; has_rpoints; has_rho;
         lowq (0 absent, 1 false, 2 true, 3 not a bool); lorch (same); ff (0 absent, 1 {} , 2 {Cutoff: null}, 3 {Cutoff: c});
         has_bcoh; has_btot; has_merge; has_Y; has_Yscale; has_Yoffset; has_F; has_FY; has_Fscale; has_Foffset; has_qmin; has_qmax;
         mode (0: StoG(json kwargs), 1: CLI flag form -> args)]
   sc = [rmin; rmax; rdelta; rpoints; rho; cutoff; bcoh; btot; Yscale; Yoffset; Fscale; Foffset; qmin; qmax]
   out = [[status; fn; rmin; rmax; rdelta; rho; bcoh; btot; lowq; lorch; has_cutoff; cutoff; has_qmin; qmin; has_qmax; qmax;
           mYs; mYo; has_F] ; dr ; plan codes]
   status 0 ok, 1 ValueError, 2 TypeError, 3 KeyError, 9 other *)
Definition flagv_of (z : Z) : option flagv :=
  match z with 0%Z => None | 1%Z => Some (FlagBool false) | 2%Z => Some (FlagBool true) | _ => Some FlagOther end.
Definition fnv_of (z : Z) : fnv := match z with 0%Z => FnName gg | 1%Z => FnName gG | 2%Z => FnName gGK | _ => FnBad end.
Definition b2f (b : bool) : float := if b then 1%float else 0%float.
Definition fn_code (g : gfun) : float := match g with gg => 0%float | gG => 1%float | gGK => 2%float end.
Definition err_code (e : err) : float := match e with ValueError => 1%float | TypeError => 2%float | KeyError => 3%float end.
Definition act_code (a : action) : float :=
  match a with AReadAll n => (10 + of_ZF (Z.of_nat n))%float | AMerge => 1%float | AWriteSQ => 2%float | ATransform => 3%float
  | AWriteGR => 4%float | AFilter => 5%float | ALorch => 6%float | AKeenFQ => 7%float | AKeenGR => 8%float end.

Definition chk_config (c : rawcase) : float :=
  let z := zs c in let s := sc c in
  let mo := if zb (znth z 12) then Some
      {| m_Y := if zb (znth z 13) then Some {| o_scale := fopt (znth z 14) (fnth s 8); o_offset := fopt (znth z 15) (fnth s 9) |} else None;
         m_F := if zb (znth z 16) then Some (if zb (znth z 17) then Some {| o_scale := fopt (znth z 18) (fnth s 10); o_offset := fopt (znth z 19) (fnth s 11) |} else None) else None |}
    else None in
  let j0 := {| j_fn := if zb (znth z 0) then Some (fnv_of (znth z 1)) else None;
              j_rmin := fopt (znth z 2) (fnth s 0); j_rmax := fopt (znth z 3) (fnth s 1);
              j_rdelta := fopt (znth z 4) (fnth s 2); j_rpoints := fopt (znth z 5) (fnth s 3);
              j_rho := fopt (znth z 6) (fnth s 4);
              j_lowq := flagv_of (znth z 7); j_lorch := flagv_of (znth z 8);
              j_ff := match znth z 9 with 0%Z => None | 1%Z => Some None | 2%Z => Some (Some None) | _ => Some (Some (Some (fnth s 5))) end;
              j_bcoh := fopt (znth z 10) (fnth s 6); j_btot := fopt (znth z 11) (fnth s 7);
              j_merge := mo; j_qmin := fopt (znth z 20) (fnth s 12); j_qmax := fopt (znth z 21) (fnth s 13) |} in
  (* mode 1: flag form; a flag that is absent on the command line takes the model's argparse default *)
  let j := if zb (znth z 22) then
      parse_cli_args (args_of_flags (fnth s 4)
        {| g_fn := if zb (znth z 0) then Some (fnv_of (znth z 1)) else None;
           g_rmax := fopt (znth z 3) (fnth s 1); g_rpoints := fopt (znth z 5) (fnth s 3);
           g_rdelta := fopt (znth z 4) (fnth s 2);
           g_cutoff := match znth z 9 with 3%Z => Some (fnth s 5) | _ => None end;
           g_lorch := Z.eqb (znth z 8) 2;
           g_bcoh := fopt (znth z 10) (fnth s 6); g_btot := fopt (znth z 11) (fnth s 7);
           g_merge := if zb (znth z 12) then Some (fnth s 9, fnth s 8) else None;
           g_lowq := Z.eqb (znth z 7) 2 |})
    else j0 in
  let o := lnth (out c) 0 in
  match kwargs2attr j with
  | Err e => dev_exact (err_code e) (fnth o 0)
  | Ok st =>
      let my := st_merge st in
      let want := [0%float; fn_code (st_fn st); st_rmin st; st_rmax st; st_rdelta st; st_rho st; st_bcoh st; st_btot st;
                   b2f (st_lowq st); b2f (st_lorch st);
                   b2f (match st_cutoff st with Some _ => true | None => false end); opt_or (st_cutoff st) 0%float;
                   b2f (match st_qmin st with Some _ => true | None => false end); opt_or (st_qmin st) 0%float;
                   b2f (match st_qmax st with Some _ => true | None => false end); opt_or (st_qmax st) 0%float;
                   merged_yscale my; merged_yoffset my; b2f (match m_F my with Some _ => true | None => false end)] in
      let plan := match cli_plan j with Ok p => map act_code p | Err e => [err_code e] end in
      fmax (devs dev_exact want o)
           (fmax (devs dev_exact (rgrid st) (lnth (out c) 1))
                 (match lnth (out c) 2 with [] => 0%float | p => devs dev_exact plan p end))
  end.

(* ================= dtype shadow (C16) =================
   zs = [method; x_dt; y_dt; dy (0 none, 1 I, 2 F); xout_dt; observed v_dt; observed e_dt; values equal to the all-float run (1/0)]
   method 0..17: conv_shadows order; 18: fourier_transform; 19: F_to_G; >= 20: named transforms / filter variants / rebin (all float) *)
From PyStoG Require Import DTypeShadow.
Definition dt_of (z : Z) : dt := if Z.eqb z 0 then I else F.
Definition odt_of (z : Z) : option dt := match z with 0%Z => None | 1%Z => Some I | _ => Some F end.
Definition chk_dtype (c : rawcase) : float :=
  let z := zs c in
  let m := Z.to_nat (znth z 0) in
  let x := dt_of (znth z 1) in let y := dt_of (znth z 2) in let d := odt_of (znth z 3) in let xo := dt_of (znth z 4) in
  let s := match nth_error (conv_shadows sd) m with
           | Some f => f x y d
           | None => if Nat.eqb m 18 then sft true x y xo d
                     else if Nat.eqb m 19 then sF_to_G true x y xo d
                     else {| v_dt := F; e_dt := F; bad := false |}
           end in
  if negb (bad s) && dt_eqb (v_dt s) (dt_of (znth z 5)) && dt_eqb (e_dt s) (dt_of (znth z 6)) && zb (znth z 7)
  then 0%float else PrimFloat.infinity.

(* ================= file codec (C18): fl = [xs; ys; rx; ry]  zs = bytes of the file the implementation wrote
   out is unused; rx, ry = what np.loadtxt returned for that file ================= *)
From PyStoG Require Import CodecM CodecExec.
Definition chk_codec (c : rawcase) : float :=
  let '(w, r) := codec_check (lnth (fl c) 0) (lnth (fl c) 1) (zs c) (lnth (fl c) 2) (lnth (fl c) 3) in
  if w && r then 0%float else if w then 1%float else PrimFloat.infinity.

(* ================= command-line data flow (C19) =================
   zs = [filter_on; lorch_on]
   fl = [q; sq; r; g            (merged S(Q) and its transform, read from the master dictionaries)
         fq; fsq; fr; fg        (what fourier_filter returned, if it ran)
         lr; lg                 (what apply_lorch returned, if it ran)
         La1; La2; La3          (arguments the entry point passed to apply_lorch)
         Ka1; Ka2               (arguments passed to _add_keen_fq)
         Ga1; Ga2]              (arguments passed to _add_keen_gr)
   every comparison is exact: the arguments are the very arrays the model's flow selects *)
From PyStoG Require Import CliM.
Definition chk_cliflow (c : rawcase) : float :=
  let f := fl c in
  let filter_on := zb (znth (zs c) 0) in let lorch_on := zb (znth (zs c) 1) in
  let fl1 := {| f_q := lnth f 0; f_sq := lnth f 1; f_r := lnth f 2; f_gr := lnth f 3 |} in
  let fl2 := if filter_on then after_filter {| fo_q := lnth f 4; fo_sq := lnth f 5; fo_r := lnth f 6; fo_gr := lnth f 7 |} else fl1 in
  let fl3 := if lorch_on then after_lorch fl2 (lnth f 8, lnth f 9) else fl2 in
  let dl := if lorch_on
            then fmax (devs dev_exact (f_q fl2) (lnth f 10)) (fmax (devs dev_exact (f_sq fl2) (lnth f 11)) (devs dev_exact (f_r fl2) (lnth f 12)))
            else 0%float in
  fmax dl (fmax (fmax (devs dev_exact (f_q fl3) (lnth f 13)) (devs dev_exact (f_sq fl3) (lnth f 14)))
                (fmax (devs dev_exact (f_r fl3) (lnth f 15)) (devs dev_exact (f_gr fl3) (lnth f 16)))).

(* ---- one -f flag: sc = the five numbers as typed after the file name; zs = [kind (0..3, 4 = unknown name)]
   out = [[Qmin; Qmax; Y.Offset; Y.Scale; X.Offset; kind]] as found in parse_cli_args(...)["Files"][i] *)
Definition chk_fileflag (c : rawcase) : float :=
  let k := match znth (zs c) 0 with 0%Z => KindName rS | 1%Z => KindName rF | 2%Z => KindName rFK | 3%Z => KindName rDCS | _ => KindBad end in
  match dinfo_of_flag (sc c) k [] [] None with
  | Ok d =>
      let kc := match d_kind d with rS => 0%float | rF => 1%float | rFK => 2%float | rDCS => 3%float end in
      let y := match d_Y d with Some o => o | None => {| o_scale := None; o_offset := None |} end in
      devs dev_exact [opt_or (d_qmin d) nan; opt_or (d_qmax d) nan; opt_or (o_offset y) nan; opt_or (o_scale y) nan;
                      match d_X d with Some (Some v) => v | _ => nan end; kc] (lnth (out c) 0)
  | Err e => dev_exact (err_code e) (fnth (lnth (out c) 0) 0)
  end.

(* ================= one public setter call on a StoG object, from the implementation's own pre-state (C19) =================
   zs = [op; ia; ib; fn; lowq; lorch; has_cutoff; has_qmin; has_qmax; tgr; tgrft; tgrl; tf0..tf4; files_present; stem;   (0..18)
         pre merge  hasY hasYs hasYo hasF Fnn hasFs hasFo;   (19..25)
         op merge   hasY hasYs hasYo hasF Fnn hasFs hasFo;   (26..32)
         n_pre_files; pre_files...; n_op_files; op_files...]  (33..)
   sc = [v; rmin; rmax; rdelta; rho; bcoh; btot; cutoff; qmin; qmax; xmin; xmax; pre Ys Yo Fs Fo; op Ys Yo Fs Fo]
   fl = [pre_dr; op_dr]
   out = [[status; fn; rmin; rmax; rdelta; rho; bcoh; btot; lowq; lorch; has_cutoff; cutoff; has_qmin; qmin; has_qmax; qmax;
           yscale; yoffset; hasF; Fnn; hasFs; Fs; hasFo; Fo; tgr; tgrft; tgrl; tf0..tf4; files_present; stem; xmin; xmax];
          post_dr; post_files]
   op: 0 rmin 1 rmax 2 rdelta 3 dr 4 density 5 bcoh 6 btot 7 low_q_correction 8 lorch_flag 9 cutoff 10 merged_opts 11 qmin 12 qmax
       13 real_space_function 14 gr_title 15 gr_ft_title 16 gr_lorch_title 17 one of the five fixed titles 18 files 19 append_file
       20 extend_file_list 21 stem_name 22 xmin 23 xmax *)
From PyStoG Require Import SettersM.
Definition mopts_of (z : list Z) (s : list float) (zo so : nat) : @mopts float :=
  {| m_Y := if zb (znth z zo) then Some {| o_scale := fopt (znth z (zo + 1)) (fnth s so); o_offset := fopt (znth z (zo + 2)) (fnth s (so + 1)) |} else None;
     m_F := if zb (znth z (zo + 3)) then Some (if zb (znth z (zo + 4)) then Some {| o_scale := fopt (znth z (zo + 5)) (fnth s (so + 2)); o_offset := fopt (znth z (zo + 6)) (fnth s (so + 3)) |} else None) else None |}.
Definition flag_of_z (z : Z) : flagv := match z with 1%Z => FlagBool false | 2%Z => FlagBool true | _ => FlagOther end.
Definition serr_code (e : option serr) : float :=
  match e with None => 0%float | Some SValueError => 1%float | Some STypeError => 2%float | Some SAttributeError => 4%float end.
Definition nat2f (n : nat) : float := of_ZF (Z.of_nat n).
Definition chk_setters (c : rawcase) : float :=
  let z := zs c in let s := sc c in let f := fl c in
  let npre := Z.to_nat (znth z 33) in
  let pre_files := map Z.to_nat (firstn npre (skipn 34 z)) in
  let nop := Z.to_nat (znth z (34 + npre)) in
  let op_files := map Z.to_nat (firstn nop (skipn (35 + npre) z)) in
  let st := {| st_fn := gfun_of (znth z 3); st_rmin := fnth s 1; st_rmax := fnth s 2; st_rdelta := fnth s 3; st_rho := fnth s 4;
               st_bcoh := fnth s 5; st_btot := fnth s 6; st_lowq := zb (znth z 4); st_lorch := zb (znth z 5);
               st_cutoff := fopt (znth z 6) (fnth s 7); st_merge := mopts_of z s 19 12;
               st_qmin := fopt (znth z 7) (fnth s 8); st_qmax := fopt (znth z 8) (fnth s 9) |} in
  let o := {| o_st := st; o_dr := lnth f 0;
              o_tgr := Z.to_nat (znth z 9); o_tgrft := Z.to_nat (znth z 10); o_tgrl := Z.to_nat (znth z 11);
              o_tfix := map Z.to_nat [znth z 12; znth z 13; znth z 14; znth z 15; znth z 16];
              o_files := if zb (znth z 17) then Some pre_files else None; o_stem := Z.to_nat (znth z 18);
              o_xmin := fnth s 10; o_xmax := fnth s 11 |} in
  let v := fnth s 0 in let ia := znth z 1 in let ib := znth z 2 in
  let p := match znth z 0 with
           | 0%Z => SRmin v | 1%Z => SRmax v | 2%Z => SRdelta v | 3%Z => SDr (lnth f 1)
           | 4%Z => SRho v | 5%Z => SBcoh v | 6%Z => SBtot v
           | 7%Z => SLowq (flag_of_z ia) | 8%Z => SLorch (flag_of_z ia)
           | 9%Z => SCutoff (fopt ia v) | 10%Z => SMerge (mopts_of z s 26 16)
           | 11%Z => SQmin (fopt ia v) | 12%Z => SQmax (fopt ia v)
           | 13%Z => SFn (fnv_of ia)
           | 14%Z => STgr (Z.to_nat ia) | 15%Z => STgrft (Z.to_nat ia) | 16%Z => STgrl (Z.to_nat ia)
           | 17%Z => STfix (Z.to_nat ia) (Z.to_nat ib)
           | 18%Z => SFiles (if zb ia then Some op_files else None)
           | 19%Z => SAppend (Z.to_nat ia) | 20%Z => SExtend op_files
           | 21%Z => SStem (Z.to_nat ia) | 22%Z => SXmin v | _ => SXmax v
           end in
  let '(o', e) := sstep o p in
  let t := o_st o' in let m := st_merge t in let fo := f_opts m in
  let want := [serr_code e; fn_code (st_fn t); st_rmin t; st_rmax t; st_rdelta t; st_rho t; st_bcoh t; st_btot t;
               b2f (st_lowq t); b2f (st_lorch t);
               b2f (match st_cutoff t with Some _ => true | None => false end); opt_or (st_cutoff t) 0%float;
               b2f (match st_qmin t with Some _ => true | None => false end); opt_or (st_qmin t) 0%float;
               b2f (match st_qmax t with Some _ => true | None => false end); opt_or (st_qmax t) 0%float;
               merged_yscale m; merged_yoffset m;
               b2f (match m_F m with Some _ => true | None => false end);
               b2f (match m_F m with Some (Some _) => true | _ => false end);
               b2f (match o_scale fo with Some _ => true | None => false end); opt_or (o_scale fo) 0%float;
               b2f (match o_offset fo with Some _ => true | None => false end); opt_or (o_offset fo) 0%float;
               nat2f (o_tgr o'); nat2f (o_tgrft o'); nat2f (o_tgrl o')]
              ++ map nat2f (o_tfix o')
              ++ [b2f (match o_files o' with Some _ => true | None => false end); nat2f (o_stem o'); o_xmin o'; o_xmax o'] in
  fmax (devs dev_exact want (lnth (out c) 0))
       (fmax (devs dev_exact (o_dr o') (lnth (out c) 1))
             (devs dev_exact (map nat2f (match o_files o' with Some l => l | None => [] end)) (lnth (out c) 2))).

(* ================= low-r mean square (C12, LowRM): fl = [r; gr] sc = [limit] zs = [use_default_limit] out = [[value]] ================= *)
From PyStoG Require Import LowRM.
Definition chk_lowr (c : rawcase) : float :=
  let r := lnth (fl c) 0 in let g := lnth (fl c) 1 in
  let v := if Z.eqb (znth (zs c) 0) 0 then lowr_mean_square r g (fnth (sc c) 0) else get_lowr_mean_square r g in
  devs dev_pt [v] (lnth (out c) 0).
