(* Exec.v -- the binary64 instance of the model, run by vm_compute on the
   cases the harness writes, and compared *inside Coq* with what the
   implementation returned.  Only failing indices and the largest scaled
   deviation leave Coq. *)
From Coq Require Import List ZArith Bool PrimFloat.
From PyStoG Require Import Num NumF ConverterM.
Import ListNotations.

Record rawcase := mk {
  fl : list (list float);   (* array inputs                 *)
  sc : list float;          (* scalar inputs                *)
  zs : list Z;              (* discrete inputs / selectors  *)
  out : list (list float)   (* what the implementation returned *)
}.

Definition fnth (l : list float) (i : nat) : float := nth i l PrimFloat.nan.
Definition lnth (l : list (list float)) (i : nat) : list float := nth i l [].
Definition znth (l : list Z) (i : nat) : Z := nth i l 0%Z.

Definition is_nan (x : float) : bool := negb (PrimFloat.eqb x x).
Definition fmax (a b : float) : float := if PrimFloat.ltb a b then b else a.

(* scaled deviation of one entry: 0 when equal (covers infinities) or both
   NaN, infinity when exactly one is NaN, |a-b|/scale otherwise *)
Definition dev1 (scale a b : float) : float :=
  if PrimFloat.eqb a b then 0%float
  else if is_nan a then (if is_nan b then 0%float else PrimFloat.infinity)
  else if is_nan b then PrimFloat.infinity
  else PrimFloat.div (PrimFloat.abs (PrimFloat.sub a b)) scale.

(* pointwise scale: max(1, |impl|) *)
Definition dev_pt (a b : float) : float := dev1 (fmax 1%float (PrimFloat.abs b)) a b.

Fixpoint devs (f : float -> float -> float) (l m : list float) : float :=
  match l, m with
  | [], [] => 0%float
  | a :: l, b :: m => fmax (f a b) (devs f l m)
  | _, _ => PrimFloat.infinity       (* shape mismatch *)
  end.

Definition tol : float := 0x1.12e0be826d695p-30.  (* 1e-9 *)

(* run a checker over the cases: indices whose deviation exceeds tol (or is
   NaN), and the largest deviation among the others *)
Fixpoint run_from (chk : rawcase -> float) (i : nat) (cs : list rawcase) : list nat * float :=
  match cs with
  | [] => ([], 0%float)
  | c :: cs =>
      let d := chk c in
      let '(bad, mx) := run_from chk (S i) cs in
      if PrimFloat.leb d tol then (bad, fmax d mx) else (i :: bad, mx)
  end.
Definition run chk cs := run_from chk 0 cs.

Definition opt_dy (has : Z) (d : list float) : option (list float) :=
  if Z.eqb has 0 then None else Some d.

Definition rfun_of (z : Z) : rfun :=
  match z with 0%Z => rS | 1%Z => rF | 2%Z => rFK | _ => rDCS end.
Definition gfun_of (z : Z) : gfun :=
  match z with 0%Z => gg | 1%Z => gG | _ => gGK end.

Definition mkkw (s : list float) (lo om : Z) : kw float :=
  {| rho := fnth s 0; bcoh := fnth s 1; btot := fnth s 2;
     lorch := negb (Z.eqb lo 0); omitted := negb (Z.eqb om 0) |}.

(* ---- conversions (C03, C04, C06) ----
   fl = [x; y; dy]  sc = [rho; bcoh; btot]  zs = [space; X; Y; has_dy; channel]
   out = [values; uncertainties]; channel 0: values, 1: uncertainties, 2: both *)
Definition chk_conv (c : rawcase) : float :=
  let k := mkkw (sc c) 0 0 in
  let x := lnth (fl c) 0 in let y := lnth (fl c) 1 in
  let dy := opt_dy (znth (zs c) 3) (lnth (fl c) 2) in
  let '(v, e) :=
    if Z.eqb (znth (zs c) 0) 0
    then rconv (rfun_of (znth (zs c) 1)) (rfun_of (znth (zs c) 2)) x y dy k
    else gconv (gfun_of (znth (zs c) 1)) (gfun_of (znth (zs c) 2)) x y dy k in
  let dv := devs dev_pt v (lnth (out c) 0) in
  let de := devs dev_pt e (lnth (out c) 1) in
  match znth (zs c) 4 with 0%Z => dv | 1%Z => de | _ => fmax dv de end.
