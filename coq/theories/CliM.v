(* CliM.v -- model of the data flow of cli.pystog_cli after the merge
   (cli.py:52-76): which curves are handed from step to step.  Definitions only. *)
From Coq Require Import List ZArith Bool.
From PyStoG Require Import Num ConverterM TransformerM FilterM StogM.
Import ListNotations.

Section Cli.
  Context {A : Type} `{Num A}.

  (* the four local variables q, sq, r, gr_out of pystog_cli *)
  Record flow := { f_q : list A; f_sq : list A; f_r : list A; f_gr : list A }.

  (* after transform_merged: r, q, sq, gr_out are read from the master dictionaries *)
  Definition flow_of_merged (s : state) : flow :=
    let '(q, sq) := curve_or_empty (t_sq s) in
    let '(r, g) := curve_or_empty (t_gr s) in
    {| f_q := q; f_sq := sq; f_r := r; f_gr := g |}.

  (* "q, sq, r, gr_out = stog.fourier_filter()" / "r, gr_out = stog.apply_lorch(q, sq, r)" *)
  Definition after_filter (o : filter_out) : flow :=
    {| f_q := fo_q o; f_sq := fo_sq o; f_r := fo_r o; f_gr := fo_gr o |}.
  Definition after_lorch (fl : flow) (rg : curve) : flow :=
    {| f_q := f_q fl; f_sq := f_sq fl; f_r := fst rg; f_gr := snd rg |}.

  Definition cli_filter (c : config) (on : bool) (s : state) (fl : flow) : state * flow :=
    if on then
      let '(s', o) := fourier_filter c s in (s', after_filter o)
    else (s, fl).

  Definition cli_lorch (c : config) (on : bool) (s : state) (fl : flow) : state * flow :=
    if on then
      let '(s', rg) := apply_lorch c s (f_q fl) (f_sq fl) (f_r fl) in (s', after_lorch fl rg)
    else (s, fl).

  (* everything pystog_cli does after merge_data *)
  Definition cli_after_merge (c : config) (filter_on lorch_on : bool) (s0 : state) : state * flow :=
    let s1 := fst (transform_merged c s0) in
    let fl1 := flow_of_merged s1 in
    let '(s2, fl2) := cli_filter c filter_on s1 fl1 in
    let '(s3, fl3) := cli_lorch c lorch_on s2 fl2 in
    let s4 := add_keen_fq c s3 (f_q fl3) (f_sq fl3) in
    (add_keen_gr c s4 (f_r fl3) (f_gr fl3), fl3).

  (* the same run as a sequence of operations of the workflow state machine *)
  Definition cli_ops (c : config) (filter_on lorch_on : bool) (s0 : state) : list op :=
    let s1 := fst (transform_merged c s0) in
    let fl1 := flow_of_merged s1 in
    let '(s2, fl2) := cli_filter c filter_on s1 fl1 in
    let '(s3, fl3) := cli_lorch c lorch_on s2 fl2 in
    [OTransform]
      ++ (if filter_on then [OFilter] else [])
      ++ (if lorch_on then [OLorch (f_q fl2) (f_sq fl2) (f_r fl2)] else [])
      ++ [OKeenFQ (f_q fl3) (f_sq fl3); OKeenGR (f_r fl3) (f_gr fl3)].
End Cli.
