(* CodecM.v -- exact model of the text file format written by
   StoG._write_out_to_file and read back by StoG.read_dataset.

     writer:  f.write("%d \n" % len(x)); f.write("# Comment line\n")
              for i, j in zip(x, y): f.write("{:.12f} {:.12f}\n".format(i, j))
     reader:  np.loadtxt(filename, skiprows=2, comments="#", unpack=True)

   Everything here is integer arithmetic on exact values: a finite binary64
   number is the dyadic rational (-1)^neg * m * 2^e with 0 <= m < 2^53.
   No floating point type occurs in this file (the tie to PrimFloat is in
   CodecExec.v).  Definitions only; the proofs are in proofs/CodecP.v. *)
From Coq Require Import ZArith List String Ascii Bool.
Import ListNotations.
Local Open Scope Z_scope.

(* ------------------------------------------------------------------ *)
(* Exact values                                                        *)
(* ------------------------------------------------------------------ *)

(* value = (-1)^d_neg * d_m * 2^d_e, with d_m >= 0.  The sign is kept
   separately so that -0.0 and tiny negative numbers keep their "-". *)
Record dyadic := mkd { d_neg : bool; d_m : Z; d_e : Z }.

(* round-half-even of the rational a / b (a >= 0, b > 0) *)
Definition rhe (a b : Z) : Z :=
  let q := a / b in
  let r := a mod b in
  if 2 * r <? b then q
  else if b <? 2 * r then q + 1
  else if Z.even q then q else q + 1.

(* to12 d = N >= 0, the round-half-even of |d| * 10^12: the integer whose
   decimal digits CPython's format(v, ".12f") prints (correct rounding of
   the exact binary value). *)
Definition to12 (d : dyadic) : Z :=
  if 0 <=? d_e d then d_m d * 2 ^ d_e d * 10 ^ 12
  else rhe (d_m d * 10 ^ 12) (2 ^ (- d_e d)).

(* ------------------------------------------------------------------ *)
(* Writer                                                              *)
(* ------------------------------------------------------------------ *)

Definition nl : ascii := ascii_of_nat 10.
Definition digit_char (d : Z) : ascii := ascii_of_N (Z.to_N (48 + d)).

(* exactly w decimal digits of n, most significant first:
   digit i (from the left) = (n / 10^(w-1-i)) mod 10 *)
Fixpoint digits_w (w : nat) (n : Z) : string :=
  match w with
  | O => EmptyString
  | S w' => String (digit_char ((n / 10 ^ Z.of_nat w') mod 10)) (digits_w w' n)
  end.

(* number of decimal digits of n >= 0 (1 for n = 0) *)
Fixpoint ndigits_aux (fuel : nat) (n : Z) : nat :=
  match fuel with
  | O => 1%nat
  | S f => if n <? 10 then 1%nat else S (ndigits_aux f (n / 10))
  end.
Definition ndigits (n : Z) : nat := ndigits_aux (S (Z.to_nat (Z.log2 n))) n.

(* decimal of n >= 0 without leading zeros ("0" for 0):  "%d" *)
Definition dec (n : Z) : string := digits_w (ndigits n) n.

(* sign, integer part, ".", exactly 12 fractional digits *)
Definition render12 (neg : bool) (N : Z) : string :=
  ((if neg then "-" else "") ++ dec (N / 10 ^ 12) ++ "." ++ digits_w 12 (N mod 10 ^ 12))%string.

Definition fmt12 (d : dyadic) : string := render12 (d_neg d) (to12 d).

Definition row (p : dyadic * dyadic) : string :=
  (fmt12 (fst p) ++ " " ++ fmt12 (snd p) ++ String nl "")%string.

Fixpoint cat_all (l : list string) : string :=
  match l with
  | [] => EmptyString
  | h :: t => (h ++ cat_all t)%string
  end.

(* NOTE: the count line is len(x) (NOT the number of rows written); the
   rows are zip(x, y), which truncates to the shorter list. *)
Definition write_file (xs ys : list dyadic) : string :=
  (dec (Z.of_nat (List.length xs)) ++ " " ++ String nl ("# Comment line" ++ String nl
     (cat_all (map row (combine xs ys)))))%string.

(* ------------------------------------------------------------------ *)
(* Reader                                                              *)
(* ------------------------------------------------------------------ *)

(* lines separated by "\n"; a final "\n" does not open another line *)
Fixpoint split_lines (s : string) : list string :=
  match s with
  | EmptyString => []
  | String c r =>
      if (c =? nl)%char then EmptyString :: split_lines r
      else match split_lines r with
           | [] => [String c EmptyString]
           | l :: ls => String c l :: ls
           end
  end.

(* comments="#": everything from the first '#' on is dropped *)
Fixpoint strip_comment (s : string) : string :=
  match s with
  | EmptyString => EmptyString
  | String c r => if (c =? "#")%char then EmptyString else String c (strip_comment r)
  end.

Definition is_space (c : ascii) : bool :=
  ((c =? " ") || (c =? ascii_of_nat 9) || (c =? ascii_of_nat 13)
   || (c =? ascii_of_nat 11) || (c =? ascii_of_nat 12) || (c =? nl))%char.

(* split on every white-space character (empty pieces included) ... *)
Fixpoint split_sp (s : string) : list string :=
  match s with
  | EmptyString => [EmptyString]
  | String c r =>
      if is_space c then EmptyString :: split_sp r
      else match split_sp r with
           | [] => [String c EmptyString]
           | w :: ws => String c w :: ws
           end
  end.

Definition nonempty (w : string) : bool :=
  match w with EmptyString => false | _ => true end.

(* ... and drop the empty pieces: str.split() *)
Definition fields (s : string) : list string := filter nonempty (split_sp s).

Definition digit_of (c : ascii) : option Z :=
  let n := Z.of_N (N_of_ascii c) in
  if (48 <=? n) && (n <=? 57) then Some (n - 48) else None.

(* a parsed decimal literal: (sign, all digits as one integer N, number k of
   digits after the point); it denotes (-1)^sign * N / 10^k *)
Definition decnum : Type := bool * Z * nat.

(* digits after the point; [seen] = at least one digit so far *)
Fixpoint parse_frac (s : string) (acc : Z) (k : nat) (seen : bool) : option (Z * nat) :=
  match s with
  | EmptyString => if seen then Some (acc, k) else None
  | String c r =>
      match digit_of c with
      | Some d => parse_frac r (acc * 10 + d) (S k) true
      | None => None
      end
  end.

Fixpoint parse_int (s : string) (acc : Z) (seen : bool) : option (Z * nat) :=
  match s with
  | EmptyString => if seen then Some (acc, 0%nat) else None
  | String c r =>
      if (c =? ".")%char then parse_frac r acc 0%nat seen
      else match digit_of c with
           | Some d => parse_int r (acc * 10 + d) true
           | None => None
           end
  end.

(* optional "-", digits, optional "." digits; at least one digit.
   (No exponent / inf / nan syntax: "{:.12f}" never produces it for finite
   values; such a field makes the model reader fail.) *)
Definition parse_field (s : string) : option decnum :=
  match s with
  | EmptyString => None
  | String c r =>
      if (c =? "-")%char
      then option_map (fun p => (true, fst p, snd p)) (parse_int r 0 false)
      else option_map (fun p => (false, fst p, snd p)) (parse_int s 0 false)
  end.

Fixpoint all_some {A} (l : list (option A)) : option (list A) :=
  match l with
  | [] => Some []
  | None :: _ => None
  | Some a :: t => option_map (cons a) (all_some t)
  end.

Definition is_nil {A} (l : list A) : bool := match l with [] => true | _ => false end.

(* the token rows loadtxt sees: skip 2 lines, strip comments, split, drop
   blank lines *)
Definition token_rows (s : string) : list (list string) :=
  filter (fun t => negb (is_nil t))
         (map (fun l => fields (strip_comment l)) (skipn 2 (split_lines s))).

Definition parse_rows (s : string) : option (list (list decnum)) :=
  all_some (map (fun t => all_some (map parse_field t)) (token_rows s)).

Definition dnum0 : decnum := (false, 0, 0%nat).

(* Columns 0 and 1 (xcol, ycol).  Like loadtxt + read_dataset this fails
   when there is no data row (loadtxt returns an empty 1-d array and
   read_dataset raises "Data format incompatible"), when a row has fewer
   than two columns, or when the rows do not all have the same number of
   columns. *)
Definition read_file (s : string) : option (list decnum * list decnum) :=
  match parse_rows s with
  | Some (r0 :: rs) =>
      let nc := List.length r0 in
      if (2 <=? nc)%nat && forallb (fun r => (List.length r =? nc)%nat) rs
      then Some (map (fun r => nth 0 r dnum0) (r0 :: rs), map (fun r => nth 1 r dnum0) (r0 :: rs))
      else None
  | _ => None
  end.

(* ------------------------------------------------------------------ *)
(* Decimal -> nearest binary64 (float(text))                           *)
(* ------------------------------------------------------------------ *)

(* N / 10^k / 2^e  =  num N e / den k e   exactly, with integers *)
Definition num (N e : Z) : Z := N * 2 ^ Z.max 0 (- e).
Definition den (k : nat) (e : Z) : Z := 10 ^ Z.of_nat k * 2 ^ Z.max 0 e.

(* Correctly rounded (nearest, ties to even) 53-bit value of N / 10^k.
   e0 is a first guess of the exponent from the bit lengths, such that
   N/10^k/2^e0 lies in (2^52, 2^54); e is corrected so that the quotient lies
   in [2^52, 2^53); the quotient is rounded half-even with the EXACT
   remainder (no sticky-bit approximation is needed with big integers); a
   carry to 2^53 renormalises to 2^52 * 2^(e+1).
   The exponent is unbounded, so this is binary64's float(text) exactly when
   the result is a normal number: 2^-1022 <= N/10^k < 2^1024 - 2^970, or
   N = 0.  With k = 12 and N >= 1 the value is >= 10^-12 > 2^-1022, so for
   the 12-decimal files the range is  0 or 10^-12 <= |v| < 2^1000
   (lemma nearest53_exponent_range in CodecP.v). *)
Definition nearest53 (t : decnum) : dyadic :=
  let '(s, N, k) := t in
  if N <=? 0 then mkd s 0 0
  else
    let e0 := Z.log2 N - Z.log2 (10 ^ Z.of_nat k) - 53 in
    let e := if num N e0 / den k e0 <? 2 ^ 53 then e0 else e0 + 1 in
    let m := rhe (num N e) (den k e) in
    if m =? 2 ^ 53 then mkd s (2 ^ 52) (e + 1) else mkd s m e.

Definition read_values (s : string) : option (list dyadic * list dyadic) :=
  option_map (fun c => (map nearest53 (fst c), map nearest53 (snd c))) (read_file s).
