(* Num.v -- the number carrier the whole model is polymorphic in, and the
   list ("numpy array") helpers shared by every model file.
   Definitions only; no lemmas here. *)
From Coq Require Import List ZArith Bool.
Import ListNotations.

Class Num (A : Type) := {
  zero : A; one : A;
  add : A -> A -> A; sub : A -> A -> A; mul : A -> A -> A; div : A -> A -> A;
  opp : A -> A; abs : A -> A; sqrt : A -> A; sin : A -> A; cos : A -> A;
  pi : A;
  ltb : A -> A -> bool; leb : A -> A -> bool; eqb : A -> A -> bool;
  of_Z : Z -> A;
  (* 10^-2 and 10^16 style literals are of_Z / of_Z; these three are the
     integer-valued operations the code uses *)
  rint : A -> A;          (* np.rint : nearest integer, ties to even      *)
  trunc : A -> Z;         (* Python int() : toward zero                   *)
  ceilZ : A -> Z;         (* ceil, as used for the length of np.arange    *)
  noise16 : A -> A        (* np.around(x, 16): rint(x*1e16)/1e16 in binary64;
                             the identity on the reals (rounding noise, see
                             DESIGN.md section 8) *)
}.

Declare Scope num_scope.
Delimit Scope num_scope with num.
Infix "+" := add : num_scope.
Infix "-" := sub : num_scope.
Infix "*" := mul : num_scope.
Infix "/" := div : num_scope.

Section Lists.
  Context {X Y Z W : Type}.
  Fixpoint map2 (f : X -> Y -> Z) (l : list X) (m : list Y) : list Z :=
    match l, m with x :: l, y :: m => f x y :: map2 f l m | _, _ => [] end.
  Fixpoint map3 (f : X -> Y -> Z -> W) (l : list X) (m : list Y) (n : list Z) : list W :=
    match l, m, n with x :: l, y :: m, z :: n => f x y z :: map3 f l m n | _, _, _ => [] end.
End Lists.

Section Generic.
  Context {A : Type} `{Num A}.
  Local Open Scope num_scope.

  Definition two : A := of_Z 2.
  Definition four : A := of_Z 4.
  Definition gtb (x y : A) : bool := ltb y x.
  Definition geb (x y : A) : bool := leb y x.
  Definition neqb (x y : A) : bool := negb (eqb x y).

  Definition zeros_like {B} (l : list B) : list A := map (fun _ => zero) l.
  Definition ones_like {B} (l : list B) : list A := map (fun _ => one) l.
  (* "if d is None: d = np.zeros_like(y)" *)
  Definition dflt_zeros (y : list A) (d : option (list A)) : list A :=
    match d with Some d => d | None => zeros_like y end.

  Definition vadd := map2 add.
  Definition vsub := map2 sub.
  Definition vmul := map2 mul.
  Definition vscale (c : A) := map (mul c).       (* c * v  *)
  Definition vscale_r (c : A) := map (fun x => mul x c).  (* v * c *)
  Definition vadd_s (c : A) := map (fun x => add x c).    (* v + c *)
  Definition vsub_s (c : A) := map (fun x => sub x c).    (* v - c *)
  Definition vdiv_s (c : A) := map (fun x => div x c).    (* v / c *)

  Definition sum_l (l : list A) : A := fold_left add l zero.
  Fixpoint minl (d : A) (l : list A) : A :=   (* Python min(): first minimal *)
    match l with [] => d | x :: l => minl (if ltb x d then x else d) l end.
  Fixpoint maxl (d : A) (l : list A) : A :=
    match l with [] => d | x :: l => maxl (if ltb d x then x else d) l end.
  Definition vmin (l : list A) : A := match l with [] => zero | x :: l => minl x l end.
  Definition vmax (l : list A) : A := match l with [] => zero | x :: l => maxl x l end.

  (* np.around(x, 2) = rint(x*100)/100 *)
  Definition hundred : A := of_Z 100.
  Definition around2 (x : A) : A := rint (x * hundred) / hundred.
End Generic.
