(* EntryM.v -- add_dataset offered an entry whose function name may be unknown (stog.py:929-1019).
   The name is only looked at after the overall-range bookkeeping (stog.py:985-986) and the crops:
   an unknown name raises ValueError (stog.py:1000-1008) before anything is appended, so a rejected
   entry has updated xmin / xmax and nothing else.  Definitions only. *)
From Coq Require Import List.
From PyStoG Require Import Num ConverterM StogM.
Import ListNotations.

Section Entry.
  Context {A : Type} `{Num A}.
  Local Open Scope num_scope.

  Definition reject_entry (s : @state A) (d : @dinfo A) : @state A :=
    let x := map around2 (d_x d) in
    let xmin := opt_or (d_qmin d) (vmin x) in
    let xmax := opt_or (d_qmax d) (vmax x) in
    {| s_xmin := pymin (s_xmin s) xmin; s_xmax := pymax (s_xmax s) xmax;
       s_recip := s_recip s; s_sq := s_sq s;
       t_sq := t_sq s; t_qsq := t_qsq s; t_ft := t_ft s; t_sqft := t_sqft s; t_fq := t_fq s;
       t_gr := t_gr s; t_grft := t_grft s; t_grl := t_grl s; t_gk := t_gk s |}.

  (* known = the entry's ReciprocalFunction is one of the four names; the bool is "accepted" *)
  Definition add_entry (c : @config A) (s : @state A) (e : @dinfo A * bool) : @state A :=
    if snd e then add_dataset c s (fst e) else reject_entry s (fst e).

  Definition accepted (es : list (@dinfo A * bool)) : list (@dinfo A) :=
    map fst (filter (fun e => snd e) es).
End Entry.
