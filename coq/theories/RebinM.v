(* RebinM.v -- model of src/pystog/pre_proc.py (Pre_Proc.rebin).  Definitions only. *)
From Coq Require Import List ZArith Bool.
From PyStoG Require Import Num.
Import ListNotations.

Section Rebin.
  Context {A : Type} `{Num A}.
  Local Open Scope num_scope.

  (* numpts = int((xmax - xmin) / xdiv) + 1 ;  xout[k] = xmin + k * xdiv *)
  Definition numpts (xmin xdiv xmax : A) : nat := Z.to_nat (trunc ((xmax - xmin) / xdiv) + 1).
  Definition rebin_grid (xmin xdiv xmax : A) : list A :=
    map (fun k => xmin + of_Z (Z.of_nat k) * xdiv) (seq 0 (numpts xmin xdiv xmax)).

  (* l[i] += v ; Python raises IndexError outside the list: the model leaves
     the list unchanged there (excluded by the theorems' hypotheses, and
     compared as an exception by the correspondence) *)
  Fixpoint add_at (i : nat) (v : A) (l : list A) : list A :=
    match l, i with
    | [], _ => []
    | x :: l, O => (x + v) :: l
    | x :: l, S i => x :: add_at i v l
    end.

  (* one pass of the accumulation loop (pre_proc.py:50-62) *)
  Definition rebin_step (xmin xdiv xmax : A) (xout : list A) (acc : list A * list A) (xy : A * A)
    : list A * list A :=
    let '(yout, ynorm) := acc in
    let '(x_tmp, y) := xy in
    if leb xmin x_tmp && leb x_tmp xmax then
      let b := Z.to_nat (trunc ((x_tmp - xmin) / xdiv)) in
      let scale1 := one - (x_tmp - nth b xout zero) / xdiv in
      let scale2 := one - scale1 in
      (add_at (S b) (y * scale2) (add_at b (y * scale1) yout),
       add_at (S b) scale2 (add_at b scale1 ynorm))
    else (yout, ynorm).

  Definition rebin (x y : list A) (xmin xdiv xmax : A) : list A * list A :=
    let xout := rebin_grid xmin xdiv xmax in
    let z := map (fun _ => zero) (seq 0 (S (length xout))) in
    let '(yout, ynorm) := fold_left (rebin_step xmin xdiv xmax xout) (combine x y) (z, z) in
    (xout, removelast (map2 div yout ynorm)).
End Rebin.
