(* FilterM.v -- model of src/pystog/fourier_filter.py.  Definitions only.
   Every variant returns the 9-tuple
   (q_ft, fq_ft, q, fq, r, gr, dfq_ft, dfq, dgr) as the code does. *)
From Coq Require Import List ZArith Bool.
From PyStoG Require Import Num ConverterM TransformerM.
Import ListNotations.

Section Filter.
  Context {A : Type} `{Num A}.
  Local Open Scope num_scope.

  Record fout := mkfout {
    q_ft : list A; y_ft : list A; q_c : list A; y_c : list A; r_o : list A; g_o : list A;
    dy_ft : list A; dy_c : list A; dg_o : list A }.

  Definition filt := list A -> list A -> list A -> list A -> A -> option (list A) -> option (list A) -> kw A -> fout.

  (* fourier_filter.py:75-96 *)
  Definition g_using_F : filt := fun r gr q fq cutoff dgr dfq k =>
    let qmin := vmin q in
    let qmax := vmax q in
    let '(r_tmp, gr_tmp_init, dgr_tmp_init) := apply_cropping r gr zero cutoff dgr in
    let gr_tmp := vadd_s one gr_tmp_init in
    let '(q1, fq_ft, dfq_ft) := g_to_F r_tmp gr_tmp q (Some dgr_tmp_init) k in
    let '(q_ft, fq_ft, dfq_ft) := apply_cropping q1 fq_ft qmin qmax (Some dfq_ft) in
    let '(q, fq, dfq) := apply_cropping q fq qmin qmax dfq in
    let fq := vsub fq fq_ft in
    let dfq := map2 (fun a b => sqrt (a * a + b * b)) dfq dfq_ft in
    let '(r, gr, dgr) := F_to_g q fq r (Some dfq) k in
    mkfout q_ft fq_ft q fq r gr dfq_ft dfq dgr.

  (* wrap a filter working on Q[S(Q)-1] by a reciprocal-space conversion in and out.
     [qout] says which abscissa the code passes to the conversion of the corrected
     function (g_using_DCS passes q_ft; the two are the same array after cropping). *)
  Definition wrap_recip (core : filt) (X : rfun) : filt := fun r gr q y cutoff dgr dy k =>
    let '(fq, dfq) := rconv X rF q y dy k in
    let o := core r gr q fq cutoff dgr (Some dfq) k in
    let '(y_ft', dy_ft') := rconv rF X (q_ft o) (y_ft o) (Some (dy_ft o)) k in
    let '(y', dy') := rconv rF X (q_c o) (y_c o) (Some (dy_c o)) k in
    mkfout (q_ft o) y_ft' (q_c o) y' (r_o o) (g_o o) dy_ft' dy' (dg_o o).

  Definition g_using_S : filt := wrap_recip g_using_F rS.
  Definition g_using_FK : filt := wrap_recip g_using_F rFK.
  Definition g_using_DCS : filt := fun r gr q y cutoff dgr dy k =>
    let '(fq, dfq) := DCS_to_F q y dy k in
    let o := g_using_F r gr q fq cutoff dgr (Some dfq) k in
    let '(y_ft', dy_ft') := F_to_DCS (q_ft o) (y_ft o) (Some (dy_ft o)) k in
    let '(y', dy') := F_to_DCS (q_ft o) (y_c o) (Some (dy_c o)) k in   (* q_ft, as written *)
    mkfout (q_ft o) y_ft' (q_c o) y' (r_o o) (g_o o) dy_ft' dy' (dg_o o).

  (* real-space wrappers around g_using_F *)
  Definition wrap_real (X : gfun) : filt := fun r gr q fq cutoff dgr dfq k =>
    let '(g, dg) := gconv X gg r gr dgr k in
    let o := g_using_F r g q fq cutoff (Some dg) dfq k in
    let '(g', dg') := gconv gg X (r_o o) (g_o o) (Some (dg_o o)) k in
    mkfout (q_ft o) (y_ft o) (q_c o) (y_c o) (r_o o) g' (dy_ft o) (dy_c o) dg'.

  Definition G_using_F : filt := wrap_real gG.
  Definition G_using_S : filt := wrap_recip G_using_F rS.
  Definition G_using_FK : filt := wrap_recip G_using_F rFK.
  Definition G_using_DCS : filt := wrap_recip G_using_F rDCS.
  Definition GK_using_F : filt := wrap_real gGK.
  Definition GK_using_S : filt := wrap_recip GK_using_F rS.
  Definition GK_using_FK : filt := wrap_recip GK_using_F rFK.
  Definition GK_using_DCS : filt := wrap_recip GK_using_F rDCS.

  Definition filter_variant (R : gfun) (Q : rfun) : filt :=
    match R, Q with
    | gg, rF => g_using_F | gg, rS => g_using_S | gg, rFK => g_using_FK | gg, rDCS => g_using_DCS
    | gG, rF => G_using_F | gG, rS => G_using_S | gG, rFK => G_using_FK | gG, rDCS => G_using_DCS
    | gGK, rF => GK_using_F | gGK, rS => GK_using_S | gGK, rFK => GK_using_FK | gGK, rDCS => GK_using_DCS
    end.
End Filter.
Arguments fout : clear implicits.
Arguments filt : clear implicits.
