(* DTypeShadow.v -- an abstract ("shadow") model of the NumPy dtype of every
   buffer the library methods create and store into, for integer (I) versus
   floating (F) input arrays.  A store of an F value into an I buffer is a
   silent truncation.  Definitions + the finite-domain theorems (the domain
   is finite: proofs are by exhaustive case analysis, which is a proof).
   The shadow is tied to the code by running every public method under every
   I/F assignment of its array arguments (harness/props/c16.py) and comparing
   the output dtypes with the shadow's prediction and the values with the
   all-float run. *)
From Coq Require Import List Bool.
Import ListNotations.

Inductive dt := I | F.
Definition dt_eqb (a b : dt) : bool := match a, b with I, I => true | F, F => true | _, _ => false end.
(* NumPy result type of a binary arithmetic ufunc on two arrays *)
Definition promote (a b : dt) : dt := match a, b with I, I => I | _, _ => F end.
(* array (op) Python float scalar, true division, sin/sqrt: always float64 *)
Definition with_pyfloat (_ : dt) : dt := F.
Definition true_div (_ _ : dt) : dt := F.
(* buf[...] = v  or  buf op= v : truncates (or, for op=, raises) iff an F value meets an I buffer *)
Definition store (buf v : dt) : bool := match buf, v with I, F => true | _, _ => false end.

(* result of a shadow evaluation: dtype of the value output, dtype of the
   uncertainty output, and whether some store truncated *)
Record sh := { v_dt : dt; e_dt : dt; bad : bool }.

(* "if d is None: d = np.zeros_like(y)" *)
Definition dflt (y : dt) (d : option dt) : dt := match d with Some d => d | None => y end.

(* converter.py:34-40 after the repair: out = np.zeros_like(numerator, dtype=float) *)
Definition sd (n d : dt) : dt * bool := (F, store F (true_div n d)).
(* the same before the repair: out = np.zeros_like(numerator) *)
Definition sd_old (n d : dt) : dt * bool := (n, store n (true_div n d)).

Section Methods.
  Variable safe_divide : dt -> dt -> dt * bool.

  Definition sF_to_S (q y : dt) (d : option dt) : sh :=
    let '(v, b1) := safe_divide y q in let '(e, b2) := safe_divide (dflt y d) q in
    {| v_dt := with_pyfloat v; e_dt := e; bad := b1 || b2 |}.
  Definition sF_to_FK (q y : dt) (d : option dt) : sh :=
    let '(v, b1) := safe_divide y q in let '(e, b2) := safe_divide (dflt y d) q in
    {| v_dt := with_pyfloat v; e_dt := with_pyfloat e; bad := b1 || b2 |}.
  Definition sFK_to_DCS (q y : dt) (d : option dt) : sh :=
    {| v_dt := with_pyfloat y; e_dt := dflt y d; bad := false |}.
  Definition sS_to_F (q y : dt) (d : option dt) : sh :=
    {| v_dt := promote q (with_pyfloat y); e_dt := promote q (dflt y d); bad := false |}.
  Definition sFK_to_F (q y : dt) (d : option dt) : sh :=
    {| v_dt := F; e_dt := F; bad := false |}.                       (* q * f / bcoh *)
  Definition sDCS_to_FK (q y : dt) (d : option dt) : sh :=
    {| v_dt := with_pyfloat y; e_dt := dflt y d; bad := false |}.
  Definition seq2 (f g : dt -> dt -> option dt -> sh) (q y : dt) (d : option dt) : sh :=
    let a := f q y d in let b := g q (v_dt a) (Some (e_dt a)) in
    {| v_dt := v_dt b; e_dt := e_dt b; bad := bad a || bad b |}.
  Definition sF_to_DCS := seq2 sF_to_FK sFK_to_DCS.
  Definition sS_to_FK := seq2 sS_to_F sF_to_FK.
  Definition sS_to_DCS := seq2 sS_to_FK sFK_to_DCS.
  Definition sFK_to_S := seq2 sFK_to_F sF_to_S.
  Definition sDCS_to_F := seq2 sDCS_to_FK sFK_to_F.
  Definition sDCS_to_S := seq2 sDCS_to_FK sFK_to_S.

  Definition sG_to_GK (r y : dt) (d : option dt) : sh :=
    let '(v, b1) := safe_divide y r in let '(e, b2) := safe_divide (dflt y d) r in
    {| v_dt := with_pyfloat v; e_dt := with_pyfloat e; bad := b1 || b2 |}.
  Definition sG_to_g (r y : dt) (d : option dt) : sh :=
    let '(v, b1) := safe_divide y (with_pyfloat r) in let '(e, b2) := safe_divide (dflt y d) (with_pyfloat r) in
    {| v_dt := with_pyfloat v; e_dt := e; bad := b1 || b2 |}.
  Definition sGK_to_G (r y : dt) (d : option dt) : sh := {| v_dt := F; e_dt := F; bad := false |}.
  Definition sg_to_G (r y : dt) (d : option dt) : sh := {| v_dt := F; e_dt := F; bad := false |}.
  Definition sGK_to_g := seq2 sGK_to_G sG_to_g.
  Definition sg_to_GK := seq2 sg_to_G sG_to_GK.

  (* fourier_transform: [fixed] selects the repaired buffer creation
     zeros_like(xout, dtype=float) versus the original zeros_like(xout) *)
  Definition sft (fixed : bool) (xin yin xout : dt) (dy : option dt) : sh :=
    let buf := if fixed then F else xout in
    {| v_dt := buf; e_dt := buf; bad := store buf F |}.            (* trapezoid / sqrt results are float64 *)
  (* F_to_G: gr *= 2/pi, dgr *= 2/pi in place on those buffers *)
  Definition sF_to_G (fixed : bool) (q y r : dt) (d : option dt) : sh :=
    let a := sft fixed q y r d in
    {| v_dt := v_dt a; e_dt := e_dt a; bad := bad a || store (v_dt a) F || store (e_dt a) F |}.
End Methods.

Definition conv_shadows (sdv : dt -> dt -> dt * bool) : list (dt -> dt -> option dt -> sh) :=
  [sF_to_S sdv; sF_to_FK sdv; sF_to_DCS sdv; sS_to_F; sS_to_FK sdv; sS_to_DCS sdv; sFK_to_F; sFK_to_S sdv; sFK_to_DCS;
   sDCS_to_F; sDCS_to_S sdv; sDCS_to_FK; sG_to_GK sdv; sG_to_g sdv; sGK_to_G; sGK_to_g sdv; sg_to_G; sg_to_GK sdv].

Definition all_dt : list dt := [I; F].
Definition all_odt : list (option dt) := [None; Some I; Some F].

(* every conversion x every dtype assignment of (x, y, dy) *)
Definition conv_sweep (sdv : dt -> dt -> dt * bool) : list sh :=
  flat_map (fun m => flat_map (fun q => flat_map (fun y => map (fun d => m q y d) all_odt) all_dt) all_dt) (conv_shadows sdv).
Definition ft_sweep (fixed : bool) : list sh :=
  flat_map (fun a => flat_map (fun b => flat_map (fun c => flat_map (fun d => [sft fixed a b c d; sF_to_G fixed a b c d]) all_odt) all_dt) all_dt) all_dt.

Theorem no_truncation_conversions : forallb (fun s => negb (bad s)) (conv_sweep sd) = true.
Proof. vm_compute. reflexivity. Qed.
Theorem no_truncation_transforms : forallb (fun s => negb (bad s)) (ft_sweep true) = true.
Proof. vm_compute. reflexivity. Qed.
(* value outputs that involve a division or the transform are float64 whatever the input dtypes *)
Theorem transform_outputs_float : forallb (fun s => dt_eqb (v_dt s) F && dt_eqb (e_dt s) F) (ft_sweep true) = true.
Proof. vm_compute. reflexivity. Qed.
Theorem conversion_values_float : forallb (fun s => dt_eqb (v_dt s) F) (conv_sweep sd) = true.
Proof. vm_compute. reflexivity. Qed.
(* the original buffer creations do truncate: an integer numerator / an integer output grid *)
Theorem old_safe_divide_truncates : existsb bad (conv_sweep sd_old) = true.
Proof. vm_compute. reflexivity. Qed.
Theorem old_transform_truncates : existsb bad (ft_sweep false) = true.
Proof. vm_compute. reflexivity. Qed.
