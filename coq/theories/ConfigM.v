(* ConfigM.v -- model of the configuration path:
   StoG.__kwargs2attr (stog.py:130-176), utils.create_domain (np.arange),
   io.parse_cli_args (io.py:88-125) and the step guards of cli.pystog_cli
   (cli.py:16-76).  Definitions only. *)
From Coq Require Import List ZArith Bool.
From PyStoG Require Import Num ConverterM StogM.
Import ListNotations.

Section Config.
  Context {A : Type} `{Num A}.
  Local Open Scope num_scope.

  (* a JSON value given where a bool is expected / a function name given *)
  Inductive flagv := FlagBool (b : bool) | FlagOther.
  Inductive fnv := FnName (g : gfun) | FnBad.
  Inductive err := ValueError | TypeError | KeyError.
  Inductive result (T : Type) := Ok (v : T) | Err (e : err).
  Arguments Ok {T}. Arguments Err {T}.

  (* the documented keys; None = key absent *)
  Record json := {
    j_fn : option fnv;                         (* RealSpaceFunction *)
    j_rmin : option A; j_rmax : option A;
    j_rdelta : option A; j_rpoints : option A;
    j_rho : option A;                          (* NumberDensity *)
    j_lowq : option flagv;                     (* OmittedXrangeCorrection *)
    j_lorch : option flagv;                    (* LorchFlag *)
    j_ff : option (option (option A));         (* FourierFilter / Cutoff / null-or-number *)
    j_bcoh : option A; j_btot : option A;
    j_merge : option (@mopts A);               (* Merging *)
    j_qmin : option A; j_qmax : option A       (* Merging.Transform.Qmin / Qmax (only read when Merging is present) *)
  }.

  Record settings := {
    st_fn : gfun; st_rmin : A; st_rmax : A; st_rdelta : A; st_rho : A; st_bcoh : A; st_btot : A;
    st_lowq : bool; st_lorch : bool; st_cutoff : option A; st_merge : @mopts A;
    st_qmin : option A; st_qmax : option A
  }.

  Definition default_merge : @mopts A :=
    {| m_Y := Some {| o_scale := Some one; o_offset := Some zero |}; m_F := None |}.
  Definition rdelta_default : A := of_Z 1 / of_Z 100.
  Definition defaults : settings :=
    {| st_fn := gg; st_rmin := zero; st_rmax := of_Z 50; st_rdelta := rdelta_default;
       st_rho := one; st_bcoh := one; st_btot := one; st_lowq := false; st_lorch := false;
       st_cutoff := None; st_merge := default_merge; st_qmin := None; st_qmax := None |}.

  Definition flag_of (f : option flagv) (d : bool) : result bool :=
    match f with None => Ok d | Some (FlagBool b) => Ok b | Some FlagOther => Err TypeError end.
  Definition fn_of (f : option fnv) (d : gfun) : result gfun :=
    match f with None => Ok d | Some (FnName g) => Ok g | Some FnBad => Err ValueError end.

  (* stog.py:130-176, in the order of the code (Rmax is set before Rpoints is read) *)
  Definition kwargs2attr (j : json) : result settings :=
    match fn_of (j_fn j) (st_fn defaults) with
    | Err e => Err e
    | Ok fn =>
      let rmin := opt_or (j_rmin j) (st_rmin defaults) in
      let rmax := opt_or (j_rmax j) (st_rmax defaults) in
      let rdelta := match j_rdelta j, j_rpoints j with
                    | Some d, _ => d
                    | None, Some n => rmax / n
                    | None, None => st_rdelta defaults
                    end in
      match flag_of (j_lowq j) (st_lowq defaults) with
      | Err e => Err e
      | Ok lowq =>
        match flag_of (j_lorch j) (st_lorch defaults) with
        | Err e => Err e
        | Ok lor =>
          Ok {| st_fn := fn; st_rmin := rmin; st_rmax := rmax; st_rdelta := rdelta;
                st_rho := opt_or (j_rho j) (st_rho defaults);
                st_bcoh := opt_or (j_bcoh j) (st_bcoh defaults);
                st_btot := opt_or (j_btot j) (st_btot defaults);
                st_lowq := lowq; st_lorch := lor;
                st_cutoff := match j_ff j with Some (Some c) => c | _ => None end;
                st_merge := opt_or (j_merge j) default_merge;
                st_qmin := match j_merge j with Some _ => j_qmin j | None => None end;
                st_qmax := match j_merge j with Some _ => j_qmax j | None => None end |}
        end
      end
    end.

  (* supplying every absent optional key with its default *)
  Definition fill_defaults (j : json) : json :=
    {| j_fn := Some (match j_fn j with Some f => f | None => FnName gg end);
       j_rmin := Some (opt_or (j_rmin j) (st_rmin defaults));
       j_rmax := Some (opt_or (j_rmax j) (st_rmax defaults));
       j_rdelta := match j_rdelta j, j_rpoints j with
                   | Some d, _ => Some d | None, Some _ => None | None, None => Some (st_rdelta defaults) end;
       j_rpoints := j_rpoints j;
       j_rho := Some (opt_or (j_rho j) (st_rho defaults));
       j_lowq := Some (match j_lowq j with Some f => f | None => FlagBool false end);
       j_lorch := Some (match j_lorch j with Some f => f | None => FlagBool false end);
       j_ff := Some (Some (match j_ff j with Some (Some c) => c | _ => None end));
       j_bcoh := Some (opt_or (j_bcoh j) (st_bcoh defaults));
       j_btot := Some (opt_or (j_btot j) (st_btot defaults));
       j_merge := Some (opt_or (j_merge j) default_merge);
       j_qmin := match j_merge j with Some _ => j_qmin j | None => None end;
       j_qmax := match j_merge j with Some _ => j_qmax j | None => None end |}.

  (* utils.create_domain = np.arange(xmin, xmax + xdelta, xdelta):
     length ceil((stop - start)/step), element i = start + i * ((start + step) - start) *)
  Definition arange (start stop step : A) : list A :=
    let n := Z.to_nat (ceilZ ((stop - start) / step)) in
    let delta := (start + step) - start in
    map (fun i => start + of_Z (Z.of_nat i) * delta) (seq 0 n).
  Definition rgrid (s : settings) : list A := arange (st_rmin s) (st_rmax s + st_rdelta s) (st_rdelta s).

  (* ---- command line ---- *)
  (* argparse namespace (io.py:7-86): every option has a default except --density *)
  Record args := {
    a_density : A; a_fn : fnv; a_rmax : A; a_rpoints : A; a_rdelta : option A;
    a_cutoff : option A; a_lorch : bool; a_bcoh : A; a_btot : A;
    a_merge_offset : A; a_merge_scale : A; a_lowq : bool
  }.
  Definition parse_cli_args (a : args) : json :=
    {| j_fn := Some (a_fn a); j_rmin := None; j_rmax := Some (a_rmax a);
       j_rdelta := a_rdelta a; j_rpoints := Some (a_rpoints a);
       j_rho := Some (a_density a);
       j_lowq := Some (FlagBool (a_lowq a)); j_lorch := Some (FlagBool (a_lorch a));
       j_ff := Some (Some (a_cutoff a));
       j_bcoh := Some (a_bcoh a); j_btot := Some (a_btot a);
       j_merge := Some {| m_Y := Some {| o_offset := Some (a_merge_offset a); o_scale := Some (a_merge_scale a) |}; m_F := None |};
       j_qmin := None; j_qmax := None |}.

  (* the argparse defaults (io.py:7-86); --density has none and must be given *)
  Definition default_args (density : A) : args :=
    {| a_density := density; a_fn := FnName gg; a_rmax := of_Z 50; a_rpoints := of_Z 5000; a_rdelta := None;
       a_cutoff := None; a_lorch := false; a_bcoh := one; a_btot := one;
       a_merge_offset := zero; a_merge_scale := one; a_lowq := false |}.
  (* flags given on the command line override the defaults one by one *)
  Record given_flags := {
    g_fn : option fnv; g_rmax : option A; g_rpoints : option A; g_rdelta : option A; g_cutoff : option A;
    g_lorch : bool; g_bcoh : option A; g_btot : option A; g_merge : option (A * A); g_lowq : bool }.
  Definition args_of_flags (density : A) (g : given_flags) : args :=
    let d := default_args density in
    {| a_density := density; a_fn := opt_or (g_fn g) (a_fn d); a_rmax := opt_or (g_rmax g) (a_rmax d);
       a_rpoints := opt_or (g_rpoints g) (a_rpoints d);
       a_rdelta := match g_rdelta g with Some v => Some v | None => a_rdelta d end;
       a_cutoff := match g_cutoff g with Some v => Some v | None => a_cutoff d end;
       a_lorch := g_lorch g; a_bcoh := opt_or (g_bcoh g) (a_bcoh d); a_btot := opt_or (g_btot g) (a_btot d);
       a_merge_offset := match g_merge g with Some (o, _) => o | None => a_merge_offset d end;
       a_merge_scale := match g_merge g with Some (_, sc) => sc | None => a_merge_scale d end;
       a_lowq := g_lowq g |}.

  (* what pystog_cli does after constructing StoG (cli.py:45-76) *)
  Inductive action :=
  | AReadAll (skiprows : nat) | AMerge | AWriteSQ | ATransform | AWriteGR
  | AFilter | ALorch | AKeenFQ | AKeenGR.
  Definition cli_skiprows : nat := 3.
  Definition lib_skiprows : nat := 2.     (* default of read_dataset *)
  Definition cli_plan (j : json) : result (list action) :=
    match kwargs2attr j with
    | Err e => Err e
    | Ok s =>
      Ok ([AReadAll cli_skiprows; AMerge; AWriteSQ; ATransform; AWriteGR]
          ++ (match st_cutoff s with Some _ => [AFilter] | None => [] end)
          ++ (if st_lorch s then [ALorch] else [])
          ++ [AKeenFQ; AKeenGR])
    end.

  (* dataset kind: ReciprocalFunction absent = S(Q); unknown name = ValueError (stog.py:994-1004) *)
  Inductive kindv := KindName (k : rfun) | KindBad.
  Definition kind_of (k : option kindv) : result rfun :=
    match k with None => Ok rS | Some (KindName r) => Ok r | Some KindBad => Err ValueError end.

  (* -f/--filename NAME QMIN QMAX YOFFSET YSCALE QOFFSET TYPE  (io.py:96-106): the six values after the
     file name, in the order they are typed, and the dataset description they become *)
  Definition dinfo_of_flag (v : list A) (k : kindv) (x y : list A) (dy : option (list A)) : result (@dinfo A) :=
    match v, kind_of (Some k) with
    | [qmin; qmax; yoffset; yscale; xoffset], Ok kind =>
        Ok {| d_x := x; d_y := y; d_dy := dy; d_qmin := Some qmin; d_qmax := Some qmax;
              d_Y := Some {| o_scale := Some yscale; o_offset := Some yoffset |};
              d_X := Some (Some xoffset); d_kind := kind |}
    | _, Err e => Err e
    | _, _ => Err ValueError
    end.
End Config.
Arguments Ok {T}. Arguments Err {T}.
