(* StogM.v -- model of the stateful core of src/pystog/stog.py:
   add_dataset, merge_data, transform_merged, fourier_filter, apply_lorch,
   _add_keen_fq, _add_keen_gr.  Definitions only.
   File output is modelled separately (CodecM.v); configuration in ConfigM.v. *)
From Coq Require Import List ZArith Bool.
From PyStoG Require Import Num ConverterM TransformerM FilterM.
Import ListNotations.

Section Stog.
  Context {A : Type} `{Num A}.
  Local Open Scope num_scope.

  (* a curve with uncertainties: three aligned arrays *)
  Definition arr3 := (list A * list A * list A)%type.
  Definition cat3 (a b : arr3) : arr3 :=
    let '(x, y, e) := a in let '(x', y', e') := b in (x ++ x', y ++ y', e ++ e').

  (* {"Y": {"Scale": .., "Offset": ..}} with every key optional *)
  Record yopts := { o_scale : option A; o_offset : option A }.
  (* "Merging": {"Y": ..., "Q[S(Q)-1]": {"Y": ...}} *)
  Record mopts := { m_Y : option yopts; m_F : option (option yopts) }.

  Record config := {
    c_qmin : option A; c_qmax : option A;       (* Merging.Transform.Qmin / Qmax *)
    c_rho : A; c_bcoh : A; c_btot : A;
    c_dr : list A;                               (* the r grid *)
    c_lowq : bool; c_lorch : bool;
    c_cutoff : A;
    c_fn : gfun;                                 (* RealSpaceFunction *)
    c_merge : mopts
  }.

  Record dinfo := {
    d_x : list A; d_y : list A; d_dy : option (list A);
    d_qmin : option A; d_qmax : option A;
    d_Y : option yopts;                 (* 'Y' in info *)
    d_X : option (option A);            (* 'X' in info, possibly without 'Offset' *)
    d_kind : rfun                       (* ReciprocalFunction (default S(Q)) *)
  }.

  Definition curve := (list A * list A)%type.
  Record state := {
    s_xmin : A; s_xmax : A;             (* running extremes of the dataset windows *)
    s_recip : arr3;                     (* reciprocal_individuals *)
    s_sq : arr3;                        (* sq_individuals *)
    (* master dictionaries, one slot per title *)
    t_sq : option curve;                (* "S(Q) Merged" *)
    t_qsq : option curve;               (* "Q[S(Q)-1] Merged" *)
    t_ft : option curve;                (* "FT term" *)
    t_sqft : option curve;              (* "S(Q) FT" *)
    t_fq : option curve;                (* "F(Q) Merged" (Keen) *)
    t_gr : option curve;                (* "<fn> Merged" *)
    t_grft : option curve;              (* "<fn> FT" *)
    t_grl : option curve;               (* "<fn> FT Lorched" *)
    t_gk : option curve                 (* "G(r) (Keen Version)" *)
  }.

  Definition init_state : state :=
    {| s_xmin := of_Z 100; s_xmax := zero; s_recip := ([], [], []); s_sq := ([], [], []);
       t_sq := None; t_qsq := None; t_ft := None; t_sqft := None; t_fq := None;
       t_gr := None; t_grft := None; t_grl := None; t_gk := None |}.

  Definition pymin (a b : A) : A := if ltb b a then b else a.   (* min(a, b) *)
  Definition pymax (a b : A) : A := if ltb a b then b else a.   (* max(a, b) *)
  Definition opt_or {B} (o : option B) (d : B) : B := match o with Some v => v | None => d end.

  (* stog.py:1022-1045 *)
  Definition apply_scales_and_offset (x y dy : list A) (yscale yoffset xoffset : A) : arr3 :=
    (vadd_s xoffset x, vadd_s yoffset (vscale_r yscale y), vscale_r yscale dy).

  Definition conv_kw (c : config) : kw A :=
    {| rho := c_rho c; bcoh := c_bcoh c; btot := c_btot c; lorch := false; omitted := false |}.

  (* one-sided global window (apply_cropping with +-inf as the other bound) *)
  Definition crop_lo (lo : A) (a : arr3) : arr3 :=
    let '(x, y, e) := a in let m := map (fun v => leb lo v) x in (select m x, select m y, select m e).
  Definition crop_hi (hi : A) (a : arr3) : arr3 :=
    let '(x, y, e) := a in let m := map (fun v => leb v hi) x in (select m x, select m y, select m e).

  (* what add_dataset stores for one dataset (rows of reciprocal_individuals and
     of sq_individuals); it does not depend on the state *)
  Definition ingest_rows (c : config) (d : dinfo) : arr3 :=
    let x := map around2 (d_x d) in
    let y := map noise16 (d_y d) in
    let dy := match d_dy d with Some e => map noise16 e | None => zeros_like y end in
    let xmin := opt_or (d_qmin d) (vmin x) in
    let xmax := opt_or (d_qmax d) (vmax x) in
    let '(x, y, dy) := apply_cropping x y xmin xmax (Some dy) in
    let adjusting := match d_Y d, d_X d with None, None => false | _, _ => true end in
    let yscale := match d_Y d with Some o => opt_or (o_scale o) one | None => one end in
    let yoffset := match d_Y d with Some o => opt_or (o_offset o) zero | None => zero end in
    let xoffset := match d_X d with Some o => opt_or o zero | None => zero end in
    let '(x, y, dy) :=
      if adjusting then
        let '(x, y, dy) := apply_scales_and_offset x y dy yscale yoffset xoffset in
        (map around2 x, y, dy)
      else (x, y, dy) in
    let a := (x, y, dy) in
    let a := match c_qmin c with Some lo => crop_lo lo a | None => a end in
    let a := match c_qmax c with Some hi => crop_hi hi a | None => a end in
    a.
  Definition to_sq (c : config) (d : dinfo) (a : arr3) : arr3 :=
    let '(x, y, dy) := a in
    let '(s, ds) := rconv (d_kind d) rS x y (Some dy) (conv_kw c) in (x, s, ds).

  (* stog.py:929-1019 *)
  Definition add_dataset (c : config) (s : state) (d : dinfo) : state :=
    let x := map around2 (d_x d) in
    let xmin := opt_or (d_qmin d) (vmin x) in
    let xmax := opt_or (d_qmax d) (vmax x) in
    let rows := ingest_rows c d in
    {| s_xmin := pymin (s_xmin s) xmin; s_xmax := pymax (s_xmax s) xmax;
       s_recip := cat3 (s_recip s) rows;
       s_sq := cat3 (s_sq s) (to_sq c d rows);
       t_sq := t_sq s; t_qsq := t_qsq s; t_ft := t_ft s; t_sqft := t_sqft s; t_fq := t_fq s;
       t_gr := t_gr s; t_grft := t_grft s; t_grl := t_grl s; t_gk := t_gk s |}.

  (* ---- merge_data (stog.py:1047-1154) ---- *)
  Definition item := (A * A * A)%type.
  Definition ikey (it : item) : A := fst (fst it).
  Definition ival (it : item) : A := snd (fst it).
  Definition ierr (it : item) : A := snd it.

  Definition zip3 (a : arr3) : list item :=
    let '(x, y, e) := a in map3 (fun x y e => (x, y, e)) x y e.
  Definition unzip3 (l : list item) : arr3 := (map ikey l, map ival l, map ierr l).

  (* Python's sorted(..., key=lambda a: a[0]) is stable: insertion sort *)
  Fixpoint insert (it : item) (l : list item) : list item :=
    match l with
    | [] => [it]
    | h :: t => if leb (ikey it) (ikey h) then it :: h :: t else h :: insert it t
    end.
  Definition sort_items (l : list item) : list item := fold_right insert [] l.

  (* the run-length loop: prev = _previous_x, nt = _n_total, ns = _n_sum, ne = _n_err *)
  Definition emit (prev nt ns ne : A) : item := (prev, ns / nt, sqrt ne / nt).
  Fixpoint go (prev nt ns ne : A) (l : list item) : list item :=
    match l with
    | [] => [emit prev nt ns ne]
    | it :: l' =>
        if eqb (ikey it) prev then go (ikey it) (nt + one) (ns + ival it) (ne + ierr it * ierr it) l'
        else emit prev nt ns ne :: go (ikey it) one (ival it) (ierr it * ierr it) l'
    end.
  Definition merge_sorted (l : list item) : list item :=
    match l with [] => [] | it :: l' => go (ikey it) one (ival it) (ierr it * ierr it) l' end.
  Definition merge_items (l : list item) : list item := merge_sorted (sort_items l).

  Definition merged_yscale (m : mopts) : A := match m_Y m with Some o => opt_or (o_scale o) one | None => one end.
  Definition merged_yoffset (m : mopts) : A := match m_Y m with Some o => opt_or (o_offset o) zero | None => zero end.
  Definition f_opts (m : mopts) : yopts :=
    match m_F m with Some (Some o) => o | _ => {| o_scale := None; o_offset := None |} end.

  Definition merge_data (c : config) (s : state) : state :=
    let sorted := sort_items (zip3 (s_sq s)) in
    let '(q, sq, dsq) := unzip3 (merge_sorted sorted) in
    let '(q, sq, dsq) := apply_scales_and_offset q sq dsq (merged_yscale (c_merge c)) (merged_yoffset (c_merge c)) zero in
    let '(fofq, dfofq) := S_to_F q sq (Some dsq) (conv_kw c) in
    let fofq := match o_scale (f_opts (c_merge c)) with Some v => vscale_r v fofq | None => fofq end in
    let fofq := match o_offset (f_opts (c_merge c)) with Some v => vadd_s v fofq | None => fofq end in
    let '(sq2, _) := F_to_S q fofq (Some dfofq) (conv_kw c) in
    let sq2 := map (fun v => if eqb v v then v else zero) sq2 in      (* sq[np.isnan(sq)] = 0 *)
    {| s_xmin := s_xmin s; s_xmax := s_xmax s; s_recip := s_recip s;
       s_sq := unzip3 sorted;
       t_sq := Some (q, sq2); t_qsq := Some (q, fofq);
       t_ft := t_ft s; t_sqft := t_sqft s; t_fq := t_fq s;
       t_gr := t_gr s; t_grft := t_grft s; t_grl := t_grl s; t_gk := t_gk s |}.

  (* ---- workflow steps ---- *)
  Definition set_gr (s : state) (v : option curve) : state :=
    {| s_xmin := s_xmin s; s_xmax := s_xmax s; s_recip := s_recip s; s_sq := s_sq s;
       t_sq := t_sq s; t_qsq := t_qsq s; t_ft := t_ft s; t_sqft := t_sqft s; t_fq := t_fq s;
       t_gr := v; t_grft := t_grft s; t_grl := t_grl s; t_gk := t_gk s |}.

  Definition curve_or_empty (o : option curve) : curve := opt_or o ([], []).

  (* stog.py:1159-1190 : kwargs = {lorch: False, rho, <b_coh>^2} *)
  Definition transform_kw (c : config) : kw A :=
    {| rho := c_rho c; bcoh := c_bcoh c; btot := c_btot c; lorch := false; omitted := false |}.
  Definition transform_merged (c : config) (s : state) : state * curve :=
    let '(q, sq) := curve_or_empty (t_sq s) in
    let '(r, g, _) := q2r rS (c_fn c) q sq (c_dr c) None (transform_kw c) in
    (set_gr s (Some (r, g)), (r, g)).

  (* stog.py:1192-1257 : kwargs = {lorch: False, rho, <b_coh>^2, OmittedXrangeCorrection: low_q_correction} *)
  Definition filter_kw (c : config) : kw A :=
    {| rho := c_rho c; bcoh := c_bcoh c; btot := c_btot c; lorch := false; omitted := c_lowq c |}.
  Record filter_out := { fo_q : list A; fo_sq : list A; fo_r : list A; fo_gr : list A }.
  Definition fourier_filter (c : config) (s : state) : state * filter_out :=
    let s := match t_gr s with Some _ => s | None => fst (transform_merged c s) end in
    let '(r, gr) := curve_or_empty (t_gr s) in
    let '(q, sq) := curve_or_empty (t_sq s) in
    let o := filter_variant (c_fn c) rS r gr q sq (c_cutoff c) None None (filter_kw c) in
    let q' := map around2 (q_c o) in
    let sq' := map noise16 (y_c o) in
    let qft := map around2 (q_ft o) in
    let sqft := map noise16 (y_ft o) in
    ({| s_xmin := s_xmin s; s_xmax := s_xmax s; s_recip := s_recip s; s_sq := s_sq s;
        t_sq := t_sq s; t_qsq := t_qsq s;
        t_ft := Some (qft, sqft); t_sqft := Some (q', sq'); t_fq := t_fq s;
        t_gr := t_gr s; t_grft := Some (r_o o, g_o o); t_grl := t_grl s; t_gk := t_gk s |},
     {| fo_q := q'; fo_sq := sq'; fo_r := r_o o; fo_gr := g_o o |}).

  (* stog.py:1259-1301 : S_to_<fn>(q, sq, r, lorch=True, ...) *)
  Definition lorch_kw (c : config) : kw A :=
    {| rho := c_rho c; bcoh := c_bcoh c; btot := c_btot c; lorch := true; omitted := false |}.
  Definition apply_lorch (c : config) (s : state) (q sq r : list A) : state * curve :=
    let '(r', g, _) := q2r rS (c_fn c) q sq r None (lorch_kw c) in
    ({| s_xmin := s_xmin s; s_xmax := s_xmax s; s_recip := s_recip s; s_sq := s_sq s;
        t_sq := t_sq s; t_qsq := t_qsq s; t_ft := t_ft s; t_sqft := t_sqft s; t_fq := t_fq s;
        t_gr := t_gr s; t_grft := t_grft s; t_grl := Some (r', g); t_gk := t_gk s |}, (r', g)).

  (* stog.py:1343-1381 *)
  Definition add_keen_fq (c : config) (s : state) (q sq : list A) : state :=
    let '(fq, _) := S_to_FK q sq None (conv_kw c) in
    {| s_xmin := s_xmin s; s_xmax := s_xmax s; s_recip := s_recip s; s_sq := s_sq s;
       t_sq := t_sq s; t_qsq := t_qsq s; t_ft := t_ft s; t_sqft := t_sqft s; t_fq := Some (q, fq);
       t_gr := t_gr s; t_grft := t_grft s; t_grl := t_grl s; t_gk := t_gk s |}.
  Definition add_keen_gr (c : config) (s : state) (r gr : list A) : state :=
    let '(gk, _) := gconv (c_fn c) gGK r gr None (conv_kw c) in
    {| s_xmin := s_xmin s; s_xmax := s_xmax s; s_recip := s_recip s; s_sq := s_sq s;
       t_sq := t_sq s; t_qsq := t_qsq s; t_ft := t_ft s; t_sqft := t_sqft s; t_fq := t_fq s;
       t_gr := t_gr s; t_grft := t_grft s; t_grl := t_grl s; t_gk := Some (r, gk) |}.

  (* ---- the workflow as a state machine (C12) ---- *)
  Inductive op :=
  | OTransform | OFilter
  | OLorch (q sq r : list A) | OKeenFQ (q sq : list A) | OKeenGR (r gr : list A).
  Definition step (c : config) (s : state) (o : op) : state :=
    match o with
    | OTransform => fst (transform_merged c s)
    | OFilter => fst (fourier_filter c s)
    | OLorch q sq r => fst (apply_lorch c s q sq r)
    | OKeenFQ q sq => add_keen_fq c s q sq
    | OKeenGR r gr => add_keen_gr c s r gr
    end.
  Definition run (c : config) (s : state) (ops : list op) : state := fold_left (step c) ops s.
End Stog.
