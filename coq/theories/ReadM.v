(* ReadM.v -- read_dataset (stog.py:899-927) after the text file has been parsed: the table is the list of
   its columns (np.loadtxt(..., unpack=True, ndmin=2); the parser itself is CodecM's reader, C18).
   Columns xcol / ycol are required; a missing dycol column means "no uncertainties" (zeros); the
   keywords of the call are forwarded to add_dataset (CallKwM).  Definitions only. *)
From Coq Require Import List Bool.
From PyStoG Require Import Num ConverterM TransformerM StogM CallKwM.
Import ListNotations.

Section Read.
  Context {A : Type} `{Num A}.

  (* None = RuntimeError("Data format incompatible with input parameters") *)
  Definition read_columns (t : list (list A)) (xcol ycol dycol : nat) : option (list A * list A * list A) :=
    if (Nat.leb (length t) xcol || Nat.leb (length t) ycol)%bool then None
    else
      let x := nth xcol t [] in
      let y := nth ycol t [] in
      Some (x, y, if Nat.leb (length t) dycol then zeros_like y else nth dycol t []).

  (* the description of the file entry with the table's columns filled in (info["data"] = ...) *)
  Definition with_data (d : @dinfo A) (xyz : list A * list A * list A) : @dinfo A :=
    let '(x, y, e) := xyz in
    {| d_x := x; d_y := y; d_dy := Some e; d_qmin := d_qmin d; d_qmax := d_qmax d;
       d_Y := d_Y d; d_X := d_X d; d_kind := d_kind d |}.

  (* the rows read_dataset(info, xcol, ycol, dycol, **k) stores; None = the call raises, nothing stored *)
  Definition read_rows (c : @config A) (k : @callkw A) (d : @dinfo A) (t : list (list A)) (xcol ycol dycol : nat) : option arr3 :=
    match read_columns t xcol ycol dycol with
    | Some xyz => Some (ingest_rows_kw c k (with_data d xyz))
    | None => None
    end.

  Definition read_dataset (c : @config A) (s : @state A) (d : @dinfo A) (t : list (list A)) (xcol ycol dycol : nat) : option (@state A) :=
    match read_columns t xcol ycol dycol with
    | Some xyz => Some (add_dataset c s (with_data d xyz))
    | None => None
    end.
End Read.
