(* NumF.v -- the IEEE binary64 carrier (Coq's primitive floats): the same
   model terms, executed by vm_compute for the correspondence check.
   + - * / sqrt and comparisons are the kernel's IEEE primitives; sin/cos are
   an fdlibm-style implementation (Cody-Waite reduction by pi/2 in three
   33-bit pieces + the kernel polynomials), accurate to a few ulp for
   |x| < 1e6. *)
From Coq Require Import ZArith Bool PrimFloat Uint63 FloatOps SpecFloat.
From PyStoG Require Import Num.
Open Scope float_scope.

Definition two52 : float := 0x1p+52.
Definition rintF (x : float) : float :=
  if PrimFloat.ltb (PrimFloat.abs x) two52 then
    (if PrimFloat.ltb x 0 then (x - two52) + two52 else (x + two52) - two52)
  else x.

(* exact integer parts from the (sign, mantissa, exponent) decomposition *)
Definition floorZF (x : float) : Z :=
  match Prim2SF x with
  | S754_finite s m e =>
      if (0 <=? e)%Z then (if s then - (Zpos m * 2 ^ e) else Zpos m * 2 ^ e)%Z
      else if s then (- Z.shiftr (Zpos m + 2 ^ (- e) - 1) (- e))%Z
           else Z.shiftr (Zpos m) (- e)
  | _ => 0%Z
  end.
Definition ceilZF (x : float) : Z := (- floorZF (- x))%Z.
Definition truncZF (x : float) : Z := if PrimFloat.ltb x 0 then ceilZF x else floorZF x.

Definition of_ZF (z : Z) : float :=
  match z with
  | Z0 => 0
  | Zpos _ => of_uint63 (Uint63.of_Z z)
  | Zneg p => - of_uint63 (Uint63.of_Z (Zpos p))
  end.

(* ---- sin / cos ---- *)
Definition invpio2 := 0x1.45f306dc9c883p-1.
Definition pio2_1 := 0x1.921fb54400000p+0.
Definition pio2_2 := 0x1.0b4611a600000p-34.
Definition pio2_3 := 0x1.3198a2e000000p-69.
Definition pio2_3t := 0x1.b839a252049c1p-104.

Definition ksin (x : float) : float :=
  let z := x * x in
  let v := z * x in
  let r := 0x1.111111110f8a6p-7 + z * (-0x1.a01a019c161d5p-13 + z * (0x1.71de357b1fe7dp-19
           + z * (-0x1.ae5e68a2b9cebp-26 + z * 0x1.5d93a5acfd57cp-33))) in
  x + v * (-0x1.5555555555549p-3 + z * r).
Definition kcos (x : float) : float :=
  let z := x * x in
  let r := z * (0x1.555555555554cp-5 + z * (-0x1.6c16c16c15177p-10 + z * (0x1.a01a019cb1590p-16
           + z * (-0x1.27e4f809c52adp-22 + z * (0x1.1ee9ebdb4b1c4p-29 + z * -0x1.8fae9be8838d4p-37))))) in
  1 - (0.5 * z - z * r).

(* x = k*pi/2 + r, |r| <= pi/4 (roughly);  returns (k mod 4, r) *)
Definition reduce (x : float) : Z * float :=
  let k := rintF (x * invpio2) in
  let r := ((x - k * pio2_1) - k * pio2_2) - k * pio2_3 in
  let r := r - k * pio2_3t in
  (Z.modulo (truncZF k) 4, r).

Definition sinF (x : float) : float :=
  if PrimFloat.ltb (PrimFloat.abs x) 0x1p-27 then x else
  let '(k, r) := reduce x in
  match k with
  | 0%Z => ksin r | 1%Z => kcos r | 2%Z => - ksin r | _ => - kcos r
  end.
Definition cosF (x : float) : float :=
  let '(k, r) := reduce x in
  match k with
  | 0%Z => kcos r | 1%Z => - ksin r | 2%Z => - kcos r | _ => ksin r
  end.

Definition piF : float := 0x1.921fb54442d18p+1.
Definition noise16F (x : float) : float :=
  rintF (x * 0x1.1c37937e08p+53) / 0x1.1c37937e08p+53.

#[export] Instance NumF : Num float := {|
  zero := 0; one := 1;
  add := PrimFloat.add; sub := PrimFloat.sub; mul := PrimFloat.mul; div := PrimFloat.div;
  opp := PrimFloat.opp; abs := PrimFloat.abs; sqrt := PrimFloat.sqrt; sin := sinF; cos := cosF;
  pi := piF;
  ltb := PrimFloat.ltb; leb := PrimFloat.leb; eqb := PrimFloat.eqb;
  of_Z := of_ZF;
  rint := rintF; trunc := truncZF; ceilZ := ceilZF;
  noise16 := noise16F
|}.
