(* ReadAllM.v -- read_all_data (stog.py:881-897): the instance's file list, read one entry after the other by
   read_dataset with the call's keywords (the same column numbers for every file).  An empty list raises
   NoInputFilesException; a table without the x or y column raises out of the loop: the datasets read before it
   stay stored (the state is the object's, the exception does not undo it).  Definitions only. *)
From Coq Require Import List Bool.
From PyStoG Require Import Num ConverterM TransformerM StogM CallKwM ReadM.
Import ListNotations.

Section ReadAll.
  Context {A : Type} `{Num A}.

  (* a file entry: its description and its parsed table *)
  Definition entry := (@dinfo A * list (list A))%type.

  (* the state after the call and whether it returned normally *)
  Fixpoint read_loop (c : @config A) (s : @state A) (es : list entry) (xcol ycol dycol : nat) : @state A * bool :=
    match es with
    | [] => (s, true)
    | (d, t) :: es =>
        match read_dataset c s d t xcol ycol dycol with
        | Some s' => read_loop c s' es xcol ycol dycol
        | None => (s, false)
        end
    end.

  Definition read_all_data (c : @config A) (s : @state A) (es : list entry) (xcol ycol dycol : nat) : @state A * bool :=
    match es with
    | [] => (s, false)                 (* NoInputFilesException *)
    | _ => read_loop c s es xcol ycol dycol
    end.

  (* every table has the required columns *)
  Definition readable (xcol ycol : nat) (e : entry) : bool :=
    negb (Nat.leb (length (snd e)) xcol || Nat.leb (length (snd e)) ycol).
  (* the entry with its columns filled in (what add_dataset sees) *)
  Definition filled (xcol ycol dycol : nat) (e : entry) : @dinfo A :=
    match read_columns (snd e) xcol ycol dycol with
    | Some xyz => with_data (fst e) xyz
    | None => fst e
    end.
End ReadAll.
