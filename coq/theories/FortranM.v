(* FortranM.v -- model of the transform loop of the Fortran reference routine
   `stog_bit` (fortran/stog_new3.f90, lines 417-540).  Definitions only.
   lptin is the length of xin; arrays are lists (Fortran index n = list index n-1). *)
From Coq Require Import List ZArith Bool.
From PyStoG Require Import Num.
Import ListNotations.

Section Fortran.
  Context {A : Type} `{Num A}.
  Local Open Scope num_scope.

  (* lines 443-452:  A = PI/xin(lptin);  yw(nn) = SIN(xin(nn)*A)/xin(nn)/A   or   yw(nn) = 1.0 *)
  Definition fb_yw (lmod : bool) (xin : list A) : list A :=
    if lmod then
      let a := pi / last xin zero in
      map (fun x => sin (x * a) / x / a) xin
    else map (fun _ => one) xin.

  (* lines 485-494:  xnew(n) = xin(n);  ynew(n) = yw(n)*(y(n)-1.0d0)*xnew(n) *)
  Definition fb_ynew (lmod : bool) (xin y : list A) : list A :=
    map3 (fun w yn xn => w * (yn - one) * xn) (fb_yw lmod xin) y xin.

  (* lines 466-470:  xout(NR) = delr*dble(NR),  NR = 1..lptout *)
  Definition fb_xout (delr : A) (lptout : nat) : list A :=
    map (fun nr => delr * of_Z (Z.of_nat nr)) (seq 1 lptout).

  (* line 502:  delq = (xin(lptin)-xin(1))/(lptin-1) *)
  Definition fb_delq (xin : list A) : A :=
    (last xin zero - hd zero xin) / of_Z (Z.of_nat (length xin) - 1).

  (* lines 507-511: the summands for N = 2..lptin, in loop order:
     (SIN(xnew(N)*RP)*ynew(N) + SIN(xnew(N-1)*RP)*ynew(N-1))/2.0d0 *)
  Fixpoint fb_terms (rp : A) (xnew ynew : list A) : list A :=
    match xnew, ynew with
    | x0 :: ((x1 :: _) as xs'), y0 :: ((y1 :: _) as ys') =>
        (sin (x1 * rp) * y1 + sin (x0 * rp) * y0) / two :: fb_terms rp xs' ys'
    | _, _ => []
    end.

  (* FS = 0;  FS = FS + term  (left to right) *)
  Definition fb_fs (rp : A) (xnew ynew : list A) : A :=
    fold_left add (fb_terms rp xnew ynew) zero.

  (* lines 502-513:  AFACT = delq*2.0/PI;  yout(NR) = FS*AFACT
     -- the transform proper, WITHOUT the low-Q term yDS of lines 518-532 *)
  Definition stog_bit_core (xin y : list A) (delr : A) (lmod : bool) (lptout : nat) : list A :=
    let ynew := fb_ynew lmod xin y in
    let afact := fb_delq xin * two / pi in
    map (fun rp => fb_fs rp xin ynew * afact) (fb_xout delr lptout).

  (* lines 534-537:  pi4r = PI*4.0d0*RHO;  yout(n) = yout(n)/pi4r/xout(n) + 1.0d0 *)
  Definition stog_bit_g (xin y : list A) (delr rho : A) (lmod : bool) (lptout : nat) : list A :=
    let pi4r := pi * four * rho in
    map2 (fun yo xo => yo / pi4r / xo + one)
         (stog_bit_core xin y delr lmod lptout) (fb_xout delr lptout).
End Fortran.
