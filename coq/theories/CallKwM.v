(* CallKwM.v -- add_dataset with its call-level manipulations (stog.py:930, 965-983, as repaired by
   the fix "add_dataset applies its yscale/yoffset/xoffset keywords when the dataset description has
   no Y or X block").  The keywords yscale / yoffset / xoffset fill in what the description leaves
   out; an entry of the description wins over the keyword.  read_dataset and read_all_data forward
   them unchanged.  Definitions only.
     ingest_rows_kw       the repaired code
     ingest_rows_kw_orig  the pinned original: the keywords count only when a "Y" or "X" block is there
     effective            the description a caller could have written instead of using keywords *)
From Coq Require Import List Bool.
From PyStoG Require Import Num ConverterM TransformerM StogM.
Import ListNotations.

Section CallKw.
  Context {A : Type} `{Num A}.
  Local Open Scope num_scope.

  Record callkw := { k_yscale : A; k_yoffset : A; k_xoffset : A }.
  Definition default_kw : callkw := {| k_yscale := one; k_yoffset := zero; k_xoffset := zero |}.

  (* yscale != 1.0 or yoffset != 0.0 or xoffset != 0.0 *)
  Definition kw_given (k : callkw) : bool :=
    neqb (k_yscale k) one || neqb (k_yoffset k) zero || neqb (k_xoffset k) zero.
  Definition has_block (d : @dinfo A) : bool :=
    match d_Y d, d_X d with None, None => false | _, _ => true end.

  Definition eff_yscale (k : callkw) (d : @dinfo A) : A :=
    match d_Y d with Some o => opt_or (o_scale o) (k_yscale k) | None => k_yscale k end.
  Definition eff_yoffset (k : callkw) (d : @dinfo A) : A :=
    match d_Y d with Some o => opt_or (o_offset o) (k_yoffset k) | None => k_yoffset k end.
  Definition eff_xoffset (k : callkw) (d : @dinfo A) : A :=
    match d_X d with Some o => opt_or o (k_xoffset k) | None => k_xoffset k end.

  Definition ingest_with (adjusting : bool) (c : @config A) (k : callkw) (d : @dinfo A) : arr3 :=
    let x := map around2 (d_x d) in
    let y := map noise16 (d_y d) in
    let dy := match d_dy d with Some e => map noise16 e | None => zeros_like y end in
    let xmin := opt_or (d_qmin d) (vmin x) in
    let xmax := opt_or (d_qmax d) (vmax x) in
    let '(x, y, dy) := apply_cropping x y xmin xmax (Some dy) in
    let '(x, y, dy) :=
      if adjusting then
        let '(x, y, dy) := apply_scales_and_offset x y dy (eff_yscale k d) (eff_yoffset k d) (eff_xoffset k d) in
        (map around2 x, y, dy)
      else (x, y, dy) in
    let a := (x, y, dy) in
    let a := match c_qmin c with Some lo => crop_lo lo a | None => a end in
    let a := match c_qmax c with Some hi => crop_hi hi a | None => a end in
    a.

  Definition ingest_rows_kw (c : @config A) (k : callkw) (d : @dinfo A) : arr3 :=
    ingest_with (kw_given k || has_block d) c k d.
  Definition ingest_rows_kw_orig (c : @config A) (k : callkw) (d : @dinfo A) : arr3 :=
    ingest_with (has_block d) c k d.

  Definition effective (k : callkw) (d : @dinfo A) : @dinfo A :=
    if kw_given k || has_block d then
      {| d_x := d_x d; d_y := d_y d; d_dy := d_dy d; d_qmin := d_qmin d; d_qmax := d_qmax d;
         d_Y := Some {| o_scale := Some (eff_yscale k d); o_offset := Some (eff_yoffset k d) |};
         d_X := Some (Some (eff_xoffset k d));
         d_kind := d_kind d |}
    else d.
End CallKw.
