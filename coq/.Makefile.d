theories/Num.vo theories/Num.glob theories/Num.v.beautified theories/Num.required_vo: theories/Num.v 
theories/Num.vio: theories/Num.v 
theories/Num.vos theories/Num.vok theories/Num.required_vos: theories/Num.v 
theories/NumR.vo theories/NumR.glob theories/NumR.v.beautified theories/NumR.required_vo: theories/NumR.v theories/Num.vo
theories/NumR.vio: theories/NumR.v theories/Num.vio
theories/NumR.vos theories/NumR.vok theories/NumR.required_vos: theories/NumR.v theories/Num.vos
theories/NumF.vo theories/NumF.glob theories/NumF.v.beautified theories/NumF.required_vo: theories/NumF.v theories/Num.vo
theories/NumF.vio: theories/NumF.v theories/Num.vio
theories/NumF.vos theories/NumF.vok theories/NumF.required_vos: theories/NumF.v theories/Num.vos
theories/ConverterM.vo theories/ConverterM.glob theories/ConverterM.v.beautified theories/ConverterM.required_vo: theories/ConverterM.v theories/Num.vo
theories/ConverterM.vio: theories/ConverterM.v theories/Num.vio
theories/ConverterM.vos theories/ConverterM.vok theories/ConverterM.required_vos: theories/ConverterM.v theories/Num.vos
theories/TransformerM.vo theories/TransformerM.glob theories/TransformerM.v.beautified theories/TransformerM.required_vo: theories/TransformerM.v theories/Num.vo theories/ConverterM.vo
theories/TransformerM.vio: theories/TransformerM.v theories/Num.vio theories/ConverterM.vio
theories/TransformerM.vos theories/TransformerM.vok theories/TransformerM.required_vos: theories/TransformerM.v theories/Num.vos theories/ConverterM.vos
theories/Exec.vo theories/Exec.glob theories/Exec.v.beautified theories/Exec.required_vo: theories/Exec.v theories/Num.vo theories/NumF.vo theories/ConverterM.vo theories/TransformerM.vo
theories/Exec.vio: theories/Exec.v theories/Num.vio theories/NumF.vio theories/ConverterM.vio theories/TransformerM.vio
theories/Exec.vos theories/Exec.vok theories/Exec.required_vos: theories/Exec.v theories/Num.vos theories/NumF.vos theories/ConverterM.vos theories/TransformerM.vos
theories/proofs/VecLib.vo theories/proofs/VecLib.glob theories/proofs/VecLib.v.beautified theories/proofs/VecLib.required_vo: theories/proofs/VecLib.v theories/Num.vo
theories/proofs/VecLib.vio: theories/proofs/VecLib.v theories/Num.vio
theories/proofs/VecLib.vos theories/proofs/VecLib.vok theories/proofs/VecLib.required_vos: theories/proofs/VecLib.v theories/Num.vos
theories/proofs/ConverterP.vo theories/proofs/ConverterP.glob theories/proofs/ConverterP.v.beautified theories/proofs/ConverterP.required_vo: theories/proofs/ConverterP.v theories/Num.vo theories/NumR.vo theories/ConverterM.vo theories/proofs/VecLib.vo
theories/proofs/ConverterP.vio: theories/proofs/ConverterP.v theories/Num.vio theories/NumR.vio theories/ConverterM.vio theories/proofs/VecLib.vio
theories/proofs/ConverterP.vos theories/proofs/ConverterP.vok theories/proofs/ConverterP.required_vos: theories/proofs/ConverterP.v theories/Num.vos theories/NumR.vos theories/ConverterM.vos theories/proofs/VecLib.vos
theories/props/C03.vo theories/props/C03.glob theories/props/C03.v.beautified theories/props/C03.required_vo: theories/props/C03.v theories/Num.vo theories/NumR.vo theories/ConverterM.vo theories/proofs/ConverterP.vo
theories/props/C03.vio: theories/props/C03.v theories/Num.vio theories/NumR.vio theories/ConverterM.vio theories/proofs/ConverterP.vio
theories/props/C03.vos theories/props/C03.vok theories/props/C03.required_vos: theories/props/C03.v theories/Num.vos theories/NumR.vos theories/ConverterM.vos theories/proofs/ConverterP.vos
theories/props/C04.vo theories/props/C04.glob theories/props/C04.v.beautified theories/props/C04.required_vo: theories/props/C04.v theories/Num.vo theories/NumR.vo theories/ConverterM.vo theories/proofs/ConverterP.vo
theories/props/C04.vio: theories/props/C04.v theories/Num.vio theories/NumR.vio theories/ConverterM.vio theories/proofs/ConverterP.vio
theories/props/C04.vos theories/props/C04.vok theories/props/C04.required_vos: theories/props/C04.v theories/Num.vos theories/NumR.vos theories/ConverterM.vos theories/proofs/ConverterP.vos
theories/props/C06.vo theories/props/C06.glob theories/props/C06.v.beautified theories/props/C06.required_vo: theories/props/C06.v theories/Num.vo theories/NumR.vo theories/ConverterM.vo theories/proofs/ConverterP.vo
theories/props/C06.vio: theories/props/C06.v theories/Num.vio theories/NumR.vio theories/ConverterM.vio theories/proofs/ConverterP.vio
theories/props/C06.vos theories/props/C06.vok theories/props/C06.required_vos: theories/props/C06.v theories/Num.vos theories/NumR.vos theories/ConverterM.vos theories/proofs/ConverterP.vos
