theories/Num.vo theories/Num.glob theories/Num.v.beautified theories/Num.required_vo: theories/Num.v 
theories/Num.vio: theories/Num.v 
theories/Num.vos theories/Num.vok theories/Num.required_vos: theories/Num.v 
theories/NumR.vo theories/NumR.glob theories/NumR.v.beautified theories/NumR.required_vo: theories/NumR.v theories/Num.vo
theories/NumR.vio: theories/NumR.v theories/Num.vio
theories/NumR.vos theories/NumR.vok theories/NumR.required_vos: theories/NumR.v theories/Num.vos
theories/NumF.vo theories/NumF.glob theories/NumF.v.beautified theories/NumF.required_vo: theories/NumF.v theories/Num.vo
theories/NumF.vio: theories/NumF.v theories/Num.vio
theories/NumF.vos theories/NumF.vok theories/NumF.required_vos: theories/NumF.v theories/Num.vos
theories/ConverterM.vo theories/ConverterM.glob theories/ConverterM.v.beautified theories/ConverterM.required_vo: theories/ConverterM.v theories/Num.vo
theories/ConverterM.vio: theories/ConverterM.v theories/Num.vio
theories/ConverterM.vos theories/ConverterM.vok theories/ConverterM.required_vos: theories/ConverterM.v theories/Num.vos
theories/TransformerM.vo theories/TransformerM.glob theories/TransformerM.v.beautified theories/TransformerM.required_vo: theories/TransformerM.v theories/Num.vo theories/ConverterM.vo
theories/TransformerM.vio: theories/TransformerM.v theories/Num.vio theories/ConverterM.vio
theories/TransformerM.vos theories/TransformerM.vok theories/TransformerM.required_vos: theories/TransformerM.v theories/Num.vos theories/ConverterM.vos
theories/FilterM.vo theories/FilterM.glob theories/FilterM.v.beautified theories/FilterM.required_vo: theories/FilterM.v theories/Num.vo theories/ConverterM.vo theories/TransformerM.vo
theories/FilterM.vio: theories/FilterM.v theories/Num.vio theories/ConverterM.vio theories/TransformerM.vio
theories/FilterM.vos theories/FilterM.vok theories/FilterM.required_vos: theories/FilterM.v theories/Num.vos theories/ConverterM.vos theories/TransformerM.vos
theories/StogM.vo theories/StogM.glob theories/StogM.v.beautified theories/StogM.required_vo: theories/StogM.v theories/Num.vo theories/ConverterM.vo theories/TransformerM.vo theories/FilterM.vo
theories/StogM.vio: theories/StogM.v theories/Num.vio theories/ConverterM.vio theories/TransformerM.vio theories/FilterM.vio
theories/StogM.vos theories/StogM.vok theories/StogM.required_vos: theories/StogM.v theories/Num.vos theories/ConverterM.vos theories/TransformerM.vos theories/FilterM.vos
theories/RebinM.vo theories/RebinM.glob theories/RebinM.v.beautified theories/RebinM.required_vo: theories/RebinM.v theories/Num.vo
theories/RebinM.vio: theories/RebinM.v theories/Num.vio
theories/RebinM.vos theories/RebinM.vok theories/RebinM.required_vos: theories/RebinM.v theories/Num.vos
theories/Exec.vo theories/Exec.glob theories/Exec.v.beautified theories/Exec.required_vo: theories/Exec.v theories/Num.vo theories/NumF.vo theories/ConverterM.vo theories/TransformerM.vo theories/FilterM.vo theories/StogM.vo theories/RebinM.vo
theories/Exec.vio: theories/Exec.v theories/Num.vio theories/NumF.vio theories/ConverterM.vio theories/TransformerM.vio theories/FilterM.vio theories/StogM.vio theories/RebinM.vio
theories/Exec.vos theories/Exec.vok theories/Exec.required_vos: theories/Exec.v theories/Num.vos theories/NumF.vos theories/ConverterM.vos theories/TransformerM.vos theories/FilterM.vos theories/StogM.vos theories/RebinM.vos
theories/proofs/VecLib.vo theories/proofs/VecLib.glob theories/proofs/VecLib.v.beautified theories/proofs/VecLib.required_vo: theories/proofs/VecLib.v theories/Num.vo
theories/proofs/VecLib.vio: theories/proofs/VecLib.v theories/Num.vio
theories/proofs/VecLib.vos theories/proofs/VecLib.vok theories/proofs/VecLib.required_vos: theories/proofs/VecLib.v theories/Num.vos
theories/proofs/ConverterP.vo theories/proofs/ConverterP.glob theories/proofs/ConverterP.v.beautified theories/proofs/ConverterP.required_vo: theories/proofs/ConverterP.v theories/Num.vo theories/NumR.vo theories/ConverterM.vo theories/proofs/VecLib.vo
theories/proofs/ConverterP.vio: theories/proofs/ConverterP.v theories/Num.vio theories/NumR.vio theories/ConverterM.vio theories/proofs/VecLib.vio
theories/proofs/ConverterP.vos theories/proofs/ConverterP.vok theories/proofs/ConverterP.required_vos: theories/proofs/ConverterP.v theories/Num.vos theories/NumR.vos theories/ConverterM.vos theories/proofs/VecLib.vos
theories/props/C03.vo theories/props/C03.glob theories/props/C03.v.beautified theories/props/C03.required_vo: theories/props/C03.v theories/Num.vo theories/NumR.vo theories/ConverterM.vo theories/proofs/ConverterP.vo
theories/props/C03.vio: theories/props/C03.v theories/Num.vio theories/NumR.vio theories/ConverterM.vio theories/proofs/ConverterP.vio
theories/props/C03.vos theories/props/C03.vok theories/props/C03.required_vos: theories/props/C03.v theories/Num.vos theories/NumR.vos theories/ConverterM.vos theories/proofs/ConverterP.vos
theories/props/C04.vo theories/props/C04.glob theories/props/C04.v.beautified theories/props/C04.required_vo: theories/props/C04.v theories/Num.vo theories/NumR.vo theories/ConverterM.vo theories/proofs/ConverterP.vo
theories/props/C04.vio: theories/props/C04.v theories/Num.vio theories/NumR.vio theories/ConverterM.vio theories/proofs/ConverterP.vio
theories/props/C04.vos theories/props/C04.vok theories/props/C04.required_vos: theories/props/C04.v theories/Num.vos theories/NumR.vos theories/ConverterM.vos theories/proofs/ConverterP.vos
theories/props/C06.vo theories/props/C06.glob theories/props/C06.v.beautified theories/props/C06.required_vo: theories/props/C06.v theories/Num.vo theories/NumR.vo theories/ConverterM.vo theories/proofs/ConverterP.vo
theories/props/C06.vio: theories/props/C06.v theories/Num.vio theories/NumR.vio theories/ConverterM.vio theories/proofs/ConverterP.vio
theories/props/C06.vos theories/props/C06.vok theories/props/C06.required_vos: theories/props/C06.v theories/Num.vos theories/NumR.vos theories/ConverterM.vos theories/proofs/ConverterP.vos
theories/proofs/LowQP.vo theories/proofs/LowQP.glob theories/proofs/LowQP.v.beautified theories/proofs/LowQP.required_vo: theories/proofs/LowQP.v theories/Num.vo theories/NumR.vo theories/ConverterM.vo theories/TransformerM.vo theories/proofs/VecLib.vo
theories/proofs/LowQP.vio: theories/proofs/LowQP.v theories/Num.vio theories/NumR.vio theories/ConverterM.vio theories/TransformerM.vio theories/proofs/VecLib.vio
theories/proofs/LowQP.vos theories/proofs/LowQP.vok theories/proofs/LowQP.required_vos: theories/proofs/LowQP.v theories/Num.vos theories/NumR.vos theories/ConverterM.vos theories/TransformerM.vos theories/proofs/VecLib.vos
theories/props/C15.vo theories/props/C15.glob theories/props/C15.v.beautified theories/props/C15.required_vo: theories/props/C15.v theories/Num.vo theories/NumR.vo theories/ConverterM.vo theories/TransformerM.vo theories/proofs/LowQP.vo
theories/props/C15.vio: theories/props/C15.v theories/Num.vio theories/NumR.vio theories/ConverterM.vio theories/TransformerM.vio theories/proofs/LowQP.vio
theories/props/C15.vos theories/props/C15.vok theories/props/C15.required_vos: theories/props/C15.v theories/Num.vos theories/NumR.vos theories/ConverterM.vos theories/TransformerM.vos theories/proofs/LowQP.vos
theories/proofs/LorchP.vo theories/proofs/LorchP.glob theories/proofs/LorchP.v.beautified theories/proofs/LorchP.required_vo: theories/proofs/LorchP.v theories/Num.vo theories/NumR.vo theories/ConverterM.vo theories/TransformerM.vo theories/proofs/VecLib.vo theories/proofs/ConverterP.vo
theories/proofs/LorchP.vio: theories/proofs/LorchP.v theories/Num.vio theories/NumR.vio theories/ConverterM.vio theories/TransformerM.vio theories/proofs/VecLib.vio theories/proofs/ConverterP.vio
theories/proofs/LorchP.vos theories/proofs/LorchP.vok theories/proofs/LorchP.required_vos: theories/proofs/LorchP.v theories/Num.vos theories/NumR.vos theories/ConverterM.vos theories/TransformerM.vos theories/proofs/VecLib.vos theories/proofs/ConverterP.vos
theories/proofs/NamedP.vo theories/proofs/NamedP.glob theories/proofs/NamedP.v.beautified theories/proofs/NamedP.required_vo: theories/proofs/NamedP.v theories/Num.vo theories/NumR.vo theories/ConverterM.vo theories/TransformerM.vo theories/proofs/VecLib.vo theories/proofs/ConverterP.vo
theories/proofs/NamedP.vio: theories/proofs/NamedP.v theories/Num.vio theories/NumR.vio theories/ConverterM.vio theories/TransformerM.vio theories/proofs/VecLib.vio theories/proofs/ConverterP.vio
theories/proofs/NamedP.vos theories/proofs/NamedP.vok theories/proofs/NamedP.required_vos: theories/proofs/NamedP.v theories/Num.vos theories/NumR.vos theories/ConverterM.vos theories/TransformerM.vos theories/proofs/VecLib.vos theories/proofs/ConverterP.vos
theories/props/C14.vo theories/props/C14.glob theories/props/C14.v.beautified theories/props/C14.required_vo: theories/props/C14.v theories/Num.vo theories/NumR.vo theories/ConverterM.vo theories/TransformerM.vo theories/proofs/ConverterP.vo theories/proofs/LorchP.vo
theories/props/C14.vio: theories/props/C14.v theories/Num.vio theories/NumR.vio theories/ConverterM.vio theories/TransformerM.vio theories/proofs/ConverterP.vio theories/proofs/LorchP.vio
theories/props/C14.vos theories/props/C14.vok theories/props/C14.required_vos: theories/props/C14.v theories/Num.vos theories/NumR.vos theories/ConverterM.vos theories/TransformerM.vos theories/proofs/ConverterP.vos theories/proofs/LorchP.vos
theories/props/C05.vo theories/props/C05.glob theories/props/C05.v.beautified theories/props/C05.required_vo: theories/props/C05.v theories/Num.vo theories/NumR.vo theories/ConverterM.vo theories/TransformerM.vo theories/proofs/ConverterP.vo theories/proofs/NamedP.vo
theories/props/C05.vio: theories/props/C05.v theories/Num.vio theories/NumR.vio theories/ConverterM.vio theories/TransformerM.vio theories/proofs/ConverterP.vio theories/proofs/NamedP.vio
theories/props/C05.vos theories/props/C05.vok theories/props/C05.required_vos: theories/props/C05.v theories/Num.vos theories/NumR.vos theories/ConverterM.vos theories/TransformerM.vos theories/proofs/ConverterP.vos theories/proofs/NamedP.vos
theories/FortranM.vo theories/FortranM.glob theories/FortranM.v.beautified theories/FortranM.required_vo: theories/FortranM.v theories/Num.vo
theories/FortranM.vio: theories/FortranM.v theories/Num.vio
theories/FortranM.vos theories/FortranM.vok theories/FortranM.required_vos: theories/FortranM.v theories/Num.vos
theories/proofs/CropP.vo theories/proofs/CropP.glob theories/proofs/CropP.v.beautified theories/proofs/CropP.required_vo: theories/proofs/CropP.v theories/Num.vo theories/NumR.vo theories/ConverterM.vo theories/TransformerM.vo theories/proofs/VecLib.vo theories/proofs/ConverterP.vo
theories/proofs/CropP.vio: theories/proofs/CropP.v theories/Num.vio theories/NumR.vio theories/ConverterM.vio theories/TransformerM.vio theories/proofs/VecLib.vio theories/proofs/ConverterP.vio
theories/proofs/CropP.vos theories/proofs/CropP.vok theories/proofs/CropP.required_vos: theories/proofs/CropP.v theories/Num.vos theories/NumR.vos theories/ConverterM.vos theories/TransformerM.vos theories/proofs/VecLib.vos theories/proofs/ConverterP.vos
theories/proofs/TransformerP.vo theories/proofs/TransformerP.glob theories/proofs/TransformerP.v.beautified theories/proofs/TransformerP.required_vo: theories/proofs/TransformerP.v theories/Num.vo theories/NumR.vo theories/ConverterM.vo theories/TransformerM.vo theories/FortranM.vo theories/proofs/VecLib.vo theories/proofs/ConverterP.vo theories/proofs/CropP.vo
theories/proofs/TransformerP.vio: theories/proofs/TransformerP.v theories/Num.vio theories/NumR.vio theories/ConverterM.vio theories/TransformerM.vio theories/FortranM.vio theories/proofs/VecLib.vio theories/proofs/ConverterP.vio theories/proofs/CropP.vio
theories/proofs/TransformerP.vos theories/proofs/TransformerP.vok theories/proofs/TransformerP.required_vos: theories/proofs/TransformerP.v theories/Num.vos theories/NumR.vos theories/ConverterM.vos theories/TransformerM.vos theories/FortranM.vos theories/proofs/VecLib.vos theories/proofs/ConverterP.vos theories/proofs/CropP.vos
theories/proofs/DstP.vo theories/proofs/DstP.glob theories/proofs/DstP.v.beautified theories/proofs/DstP.required_vo: theories/proofs/DstP.v 
theories/proofs/DstP.vio: theories/proofs/DstP.v 
theories/proofs/DstP.vos theories/proofs/DstP.vok theories/proofs/DstP.required_vos: theories/proofs/DstP.v 
theories/proofs/RoundTripP.vo theories/proofs/RoundTripP.glob theories/proofs/RoundTripP.v.beautified theories/proofs/RoundTripP.required_vo: theories/proofs/RoundTripP.v theories/Num.vo theories/NumR.vo theories/ConverterM.vo theories/TransformerM.vo theories/proofs/VecLib.vo theories/proofs/ConverterP.vo theories/proofs/DstP.vo
theories/proofs/RoundTripP.vio: theories/proofs/RoundTripP.v theories/Num.vio theories/NumR.vio theories/ConverterM.vio theories/TransformerM.vio theories/proofs/VecLib.vio theories/proofs/ConverterP.vio theories/proofs/DstP.vio
theories/proofs/RoundTripP.vos theories/proofs/RoundTripP.vok theories/proofs/RoundTripP.required_vos: theories/proofs/RoundTripP.v theories/Num.vos theories/NumR.vos theories/ConverterM.vos theories/TransformerM.vos theories/proofs/VecLib.vos theories/proofs/ConverterP.vos theories/proofs/DstP.vos
theories/proofs/AnchorsP.vo theories/proofs/AnchorsP.glob theories/proofs/AnchorsP.v.beautified theories/proofs/AnchorsP.required_vo: theories/proofs/AnchorsP.v 
theories/proofs/AnchorsP.vio: theories/proofs/AnchorsP.v 
theories/proofs/AnchorsP.vos theories/proofs/AnchorsP.vok theories/proofs/AnchorsP.required_vos: theories/proofs/AnchorsP.v 
theories/props/C01.vo theories/props/C01.glob theories/props/C01.v.beautified theories/props/C01.required_vo: theories/props/C01.v theories/Num.vo theories/NumR.vo theories/ConverterM.vo theories/TransformerM.vo theories/proofs/DstP.vo theories/proofs/RoundTripP.vo theories/proofs/AnchorsP.vo
theories/props/C01.vio: theories/props/C01.v theories/Num.vio theories/NumR.vio theories/ConverterM.vio theories/TransformerM.vio theories/proofs/DstP.vio theories/proofs/RoundTripP.vio theories/proofs/AnchorsP.vio
theories/props/C01.vos theories/props/C01.vok theories/props/C01.required_vos: theories/props/C01.v theories/Num.vos theories/NumR.vos theories/ConverterM.vos theories/TransformerM.vos theories/proofs/DstP.vos theories/proofs/RoundTripP.vos theories/proofs/AnchorsP.vos
theories/props/C02.vo theories/props/C02.glob theories/props/C02.v.beautified theories/props/C02.required_vo: theories/props/C02.v theories/Num.vo theories/NumR.vo theories/ConverterM.vo theories/TransformerM.vo theories/FortranM.vo theories/proofs/ConverterP.vo theories/proofs/CropP.vo theories/proofs/TransformerP.vo
theories/props/C02.vio: theories/props/C02.v theories/Num.vio theories/NumR.vio theories/ConverterM.vio theories/TransformerM.vio theories/FortranM.vio theories/proofs/ConverterP.vio theories/proofs/CropP.vio theories/proofs/TransformerP.vio
theories/props/C02.vos theories/props/C02.vok theories/props/C02.required_vos: theories/props/C02.v theories/Num.vos theories/NumR.vos theories/ConverterM.vos theories/TransformerM.vos theories/FortranM.vos theories/proofs/ConverterP.vos theories/proofs/CropP.vos theories/proofs/TransformerP.vos
theories/props/C13.vo theories/props/C13.glob theories/props/C13.v.beautified theories/props/C13.required_vo: theories/props/C13.v theories/Num.vo theories/NumR.vo theories/ConverterM.vo theories/TransformerM.vo theories/proofs/ConverterP.vo theories/proofs/CropP.vo
theories/props/C13.vio: theories/props/C13.v theories/Num.vio theories/NumR.vio theories/ConverterM.vio theories/TransformerM.vio theories/proofs/ConverterP.vio theories/proofs/CropP.vio
theories/props/C13.vos theories/props/C13.vok theories/props/C13.required_vos: theories/props/C13.v theories/Num.vos theories/NumR.vos theories/ConverterM.vos theories/TransformerM.vos theories/proofs/ConverterP.vos theories/proofs/CropP.vos
theories/proofs/UncertP.vo theories/proofs/UncertP.glob theories/proofs/UncertP.v.beautified theories/proofs/UncertP.required_vo: theories/proofs/UncertP.v theories/Num.vo theories/NumR.vo theories/ConverterM.vo theories/TransformerM.vo theories/proofs/VecLib.vo
theories/proofs/UncertP.vio: theories/proofs/UncertP.v theories/Num.vio theories/NumR.vio theories/ConverterM.vio theories/TransformerM.vio theories/proofs/VecLib.vio
theories/proofs/UncertP.vos theories/proofs/UncertP.vok theories/proofs/UncertP.required_vos: theories/proofs/UncertP.v theories/Num.vos theories/NumR.vos theories/ConverterM.vos theories/TransformerM.vos theories/proofs/VecLib.vos
theories/props/C07.vo theories/props/C07.glob theories/props/C07.v.beautified theories/props/C07.required_vo: theories/props/C07.v theories/Num.vo theories/NumR.vo theories/ConverterM.vo theories/TransformerM.vo theories/proofs/UncertP.vo
theories/props/C07.vio: theories/props/C07.v theories/Num.vio theories/NumR.vio theories/ConverterM.vio theories/TransformerM.vio theories/proofs/UncertP.vio
theories/props/C07.vos theories/props/C07.vok theories/props/C07.required_vos: theories/props/C07.v theories/Num.vos theories/NumR.vos theories/ConverterM.vos theories/TransformerM.vos theories/proofs/UncertP.vos
