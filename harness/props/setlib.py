"""Scripts of public setter calls on a live StoG object (C19: every option ends up in the corresponding setting;
the r grid follows Rmin / Rmax / Rdelta), checked step by step from the implementation's own pre-state against
SettersM.sstep (Exec.chk_setters) and directly against the property (oracle)."""
import numpy as np

FN = ["g(r)", "G(r)", "GK(r)", "bogus(r)"]
FIXED_ATTRS = ["sq_title", "qsq_minus_one_title", "sq_ft_title", "fq_title", "GKofR_title"]
FIXED_DEFAULT = ["S(Q) Merged", "Q[S(Q)-1] Merged", "S(Q) FT", "F(Q) Merged", "G(r) (Keen Version)"]
OPS = ["rmin", "rmax", "rdelta", "dr", "density", "bcoh_sqrd", "btot_sqrd", "low_q_correction", "lorch_flag",
       "fourier_filter_cutoff", "merged_opts", "qmin", "qmax", "real_space_function", "gr_title", "gr_ft_title",
       "gr_lorch_title", "fixed_title", "files", "append_file", "extend_file_list", "stem_name", "xmin", "xmax"]
ERR = {"ValueError": 1.0, "TypeError": 2.0, "KeyError": 3.0, "AttributeError": 4.0}


def title_code(t):
    for i, f in enumerate(FN[:3]):
        if t == "%s Merged" % f:
            return 10 + i
        if t == "%s FT" % f:
            return 20 + i
        if t == "%s FT Lorched" % f:
            return 30 + i
    if t in FIXED_DEFAULT:
        return 1 + FIXED_DEFAULT.index(t)
    if isinstance(t, str) and t.startswith("custom"):
        return 100 + int(t[6:])
    return 9999


def title_str(code):
    if code >= 100:
        return "custom%d" % (code - 100)
    if code >= 30:
        return "%s FT Lorched" % FN[code - 30]
    if code >= 20:
        return "%s FT" % FN[code - 20]
    if code >= 10:
        return "%s Merged" % FN[code - 10]
    return FIXED_DEFAULT[code - 1]


def gen_merge(rng):
    Y = rng.choice([None, {}, {"Scale": rng.uniform(0.5, 2)}, {"Offset": rng.uniform(-0.2, 0.2)}, {"Scale": 1.5, "Offset": 0.25}])
    F = rng.choice([None, None, {}, {"Y": {}}, {"Y": {"Scale": rng.uniform(0.5, 2)}}, {"Y": {"Scale": 0.5, "Offset": 0.1}}])
    m = {}
    if Y is not None:
        m["Y"] = Y
    if F is not None:
        m["Q[S(Q)-1]"] = F
    return m


def gen_op(rng):
    k = rng.choice(list(range(len(OPS))) + [0, 1, 2, 0, 1, 2, 3, 13, 13])     # grid ops and the function name more often
    op = {"op": k}
    if k == 0:
        op["v"] = rng.choice([0.0, 0.5, rng.uniform(0.0, 1.5), 7.0])
    elif k == 1:
        op["v"] = rng.choice([2.0, 5.0, rng.uniform(1.0, 6.0), 0.25])
    elif k == 2:
        op["v"] = rng.choice([0.1, 0.25, 0.5, rng.uniform(0.05, 0.7), 0.3])
    elif k == 3:
        op["l"] = [round(0.2 * i + rng.uniform(0, 0.1), 4) for i in range(rng.randint(0, 6))]
    elif k in (4, 5, 6, 22, 23):
        op["v"] = rng.choice([rng.logu(0.01, 10.0), 1.0, 0.0, -1.5])
    elif k in (7, 8):
        op["ia"] = rng.choice([1, 2, 2, 1, 3])
    elif k in (9, 11, 12):
        op["ia"] = rng.choice([1, 1, 0])
        op["v"] = rng.uniform(0.1, 3.0)
    elif k == 10:
        op["m"] = gen_merge(rng)
    elif k == 13:
        op["ia"] = rng.choice([0, 1, 2, 2, 1, 3])
    elif k in (14, 15, 16):
        op["ia"] = rng.choice([100 + rng.randint(0, 5), 10 + rng.randint(0, 2), 20 + rng.randint(0, 2), 30 + rng.randint(0, 2)])
    elif k == 17:
        op["ia"] = rng.randint(0, 4)
        op["ib"] = rng.choice([100 + rng.randint(0, 5), rng.randint(1, 5)])
    elif k == 18:
        op["ia"] = rng.choice([1, 1, 1, 0])
        op["l"] = [rng.randint(0, 9) for _ in range(rng.randint(0, 3))]
    elif k == 19:
        op["ia"] = rng.randint(0, 9)
    elif k == 20:
        op["l"] = [rng.randint(0, 9) for _ in range(rng.randint(0, 3))]
    elif k == 21:
        op["ia"] = rng.randint(0, 9)
    return op


def generate(rng, tier):
    cases = []
    n = 14 if tier == "quick" else 150
    for i in range(n):
        start = {} if i % 7 == 6 else {"Rmax": rng.choice([2.0, 4.0]), "Rdelta": rng.choice([0.1, 0.2, 0.25]), "Rmin": rng.choice([0.0, 0.3])}
        if i % 3 == 1:
            start["RealSpaceFunction"] = FN[rng.randint(0, 2)]
        if i % 4 == 1:
            start["Merging"] = gen_merge(rng)
        ops = [gen_op(rng) for _ in range(rng.randint(6, 16))]
        if i % 7 == 6:
            ops = [{"op": rng.choice([1, 2]), "v": rng.choice([2.0, 0.5])}] + ops     # leave the 5001-point default grid early
        cases.append({"kind": "setters", "mode": 0, "present": {}, "v": {"start": start, "ops": ops},
                      "desc": {"kind": "setters", "n_ops": len(ops), "ops": sorted(set(OPS[o["op"]] for o in ops))}})
    return cases


def snapshot(st):
    mo = st.merged_opts
    mo = mo if isinstance(mo, dict) else {}
    Y = mo.get("Y")
    F = mo.get("Q[S(Q)-1]")
    FY = F.get("Y") if isinstance(F, dict) else None
    files = st.files
    return {
        "fn": FN.index(st.real_space_function) if st.real_space_function in FN else 9,
        "rmin": float(st.rmin), "rmax": float(st.rmax), "rdelta": float(st.rdelta), "rho": float(st.density),
        "bcoh": float(st.bcoh_sqrd), "btot": float(st.btot_sqrd),
        "lowq": int(bool(st.low_q_correction)), "lorch": int(bool(st.lorch_flag)),
        "cutoff": None if st.fourier_filter_cutoff is None else float(st.fourier_filter_cutoff),
        "qmin": None if st.qmin is None else float(st.qmin), "qmax": None if st.qmax is None else float(st.qmax),
        "merge": {"hasY": int(Y is not None), "hasYs": int(bool(Y) and "Scale" in Y), "hasYo": int(bool(Y) and "Offset" in Y),
                  "hasF": int(F is not None), "Fnn": int(FY is not None), "hasFs": int(bool(FY) and "Scale" in FY), "hasFo": int(bool(FY) and "Offset" in FY),
                  "Ys": float((Y or {}).get("Scale", 0.0)), "Yo": float((Y or {}).get("Offset", 0.0)),
                  "Fs": float((FY or {}).get("Scale", 0.0)), "Fo": float((FY or {}).get("Offset", 0.0))},
        "tgr": title_code(st.gr_title), "tgrft": title_code(st.gr_ft_title), "tgrl": title_code(st.gr_lorch_title),
        "tfix": [title_code(getattr(st, a)) for a in FIXED_ATTRS],
        "files": None if files is None else [int(f[1:]) for f in files],
        "stem": 0 if st.stem_name == "out" else int(st.stem_name[4:]),
        "xmin": float(st.xmin), "xmax": float(st.xmax),
        "dr": np.asarray(st.dr, float).tolist(),
    }


def apply_op(st, op):
    k = op["op"]
    v = op.get("v")
    ia = op.get("ia")
    if k in (0, 1, 2, 4, 5, 6, 22, 23):
        setattr(st, {0: "rmin", 1: "rmax", 2: "rdelta", 4: "density", 5: "bcoh_sqrd", 6: "btot_sqrd", 22: "xmin", 23: "xmax"}[k], v)
    elif k == 3:
        st.dr = np.array(op["l"], dtype=float)
    elif k in (7, 8):
        setattr(st, "low_q_correction" if k == 7 else "lorch_flag", {1: False, 2: True, 3: "yes"}[ia])
    elif k in (9, 11, 12):
        setattr(st, {9: "fourier_filter_cutoff", 11: "qmin", 12: "qmax"}[k], v if ia else None)
    elif k == 10:
        st.merged_opts = op["m"]
    elif k == 13:
        st.real_space_function = FN[ia]
    elif k in (14, 15, 16):
        setattr(st, {14: "gr_title", 15: "gr_ft_title", 16: "gr_lorch_title"}[k], title_str(ia))
    elif k == 17:
        setattr(st, FIXED_ATTRS[ia], title_str(op["ib"]))
    elif k == 18:
        st.files = ["f%d" % f for f in op["l"]] if ia else None
    elif k == 19:
        st.append_file("f%d" % ia)
    elif k == 20:
        st.extend_file_list(["f%d" % f for f in op["l"]])
    elif k == 21:
        st.stem_name = "stem%d" % ia


def run_impl(pystog, case):
    st = pystog.StoG(**case["v"]["start"])
    steps = []
    for op in case["v"]["ops"]:
        pre = snapshot(st)
        status = 0.0
        err = None
        try:
            apply_op(st, op)
        except Exception as e:
            status = ERR.get(type(e).__name__, 9.0)
            err = "%s: %s" % (type(e).__name__, str(e)[:120])
        steps.append({"op": op, "pre": pre, "post": snapshot(st), "status": status, "error": err})
    return {"steps": steps}


def _mz(m):
    return [m["hasY"], m["hasYs"], m["hasYo"], m["hasF"], m["Fnn"], m["hasFs"], m["hasFo"]]


def _mopts_codes(m):
    Y = m.get("Y")
    F = m.get("Q[S(Q)-1]")
    FY = F.get("Y") if isinstance(F, dict) else None
    return ([int(Y is not None), int(bool(Y) and "Scale" in Y), int(bool(Y) and "Offset" in Y), int(F is not None), int(FY is not None),
             int(bool(FY) and "Scale" in FY), int(bool(FY) and "Offset" in FY)],
            [float((Y or {}).get("Scale", 0.0)), float((Y or {}).get("Offset", 0.0)), float((FY or {}).get("Scale", 0.0)), float((FY or {}).get("Offset", 0.0))])


def post_vector(s, status):
    m = s["merge"]
    ys = m["Ys"] if (m["hasY"] and m["hasYs"]) else 1.0
    yo = m["Yo"] if (m["hasY"] and m["hasYo"]) else 0.0
    fs_has = int(m["hasF"] and m["Fnn"] and m["hasFs"])
    fo_has = int(m["hasF"] and m["Fnn"] and m["hasFo"])
    return ([status, float(s["fn"]), s["rmin"], s["rmax"], s["rdelta"], s["rho"], s["bcoh"], s["btot"], float(s["lowq"]), float(s["lorch"]),
             float(s["cutoff"] is not None), s["cutoff"] or 0.0, float(s["qmin"] is not None), s["qmin"] or 0.0,
             float(s["qmax"] is not None), s["qmax"] or 0.0, ys, yo, float(m["hasF"]), float(m["hasF"] and m["Fnn"]),
             float(fs_has), m["Fs"] if fs_has else 0.0, float(fo_has), m["Fo"] if fo_has else 0.0,
             float(s["tgr"]), float(s["tgrft"]), float(s["tgrl"])] + [float(t) for t in s["tfix"]]
            + [float(s["files"] is not None), float(s["stem"]), s["xmin"], s["xmax"]])


def to_coq(case, res):
    encs = []
    for stp in res["steps"]:
        op, pre, post = stp["op"], stp["pre"], stp["post"]
        k = op["op"]
        opm_z, opm_f = _mopts_codes(op["m"]) if k == 10 else ([0] * 7, [0.0] * 4)
        pre_files = pre["files"] or []
        op_files = op.get("l", []) if k in (18, 20) else []
        zs = ([k, int(op.get("ia", 0)), int(op.get("ib", 0)), pre["fn"], pre["lowq"], pre["lorch"], int(pre["cutoff"] is not None),
               int(pre["qmin"] is not None), int(pre["qmax"] is not None), pre["tgr"], pre["tgrft"], pre["tgrl"]] + pre["tfix"]
              + [int(pre["files"] is not None), pre["stem"]] + _mz(pre["merge"]) + opm_z
              + [len(pre_files)] + pre_files + [len(op_files)] + op_files)
        pm = pre["merge"]
        sc = [float(op.get("v", 0.0) or 0.0), pre["rmin"], pre["rmax"], pre["rdelta"], pre["rho"], pre["bcoh"], pre["btot"], pre["cutoff"] or 0.0,
              pre["qmin"] or 0.0, pre["qmax"] or 0.0, pre["xmin"], pre["xmax"], pm["Ys"], pm["Yo"], pm["Fs"], pm["Fo"]] + opm_f
        fl = [pre["dr"], [float(x) for x in op["l"]] if k == 3 else []]
        out = [post_vector(post, stp["status"]), post["dr"], [float(f) for f in (post["files"] or [])]]
        encs.append(("chk_setters", (fl, sc, [int(z) for z in zs], out)))
    return encs


def nontrivial(case, res):
    return len(res.get("steps", [])) >= 3


def arange_ref(rmin, rmax, rdelta):
    return np.arange(rmin, rmax + rdelta, rdelta)


def oracle(pystog, case, res):
    """every setter stores exactly the value given in its own setting and changes nothing else (Rmin/Rmax/Rdelta also refresh the
    r grid, which then starts at Rmin, has constant step Rdelta and covers Rmax; real_space_function also re-derives the three
    titles); an invalid function name or a non-boolean flag raises and leaves the object as it was"""
    scalar = {0: "rmin", 1: "rmax", 2: "rdelta", 4: "rho", 5: "bcoh", 6: "btot", 22: "xmin", 23: "xmax"}
    for i, stp in enumerate(res["steps"]):
        op, pre, post, k = stp["op"], stp["pre"], stp["post"], stp["op"]["op"]
        name = OPS[k]
        bad = (k in (7, 8) and op["ia"] == 3) or (k == 13 and op["ia"] == 3)
        nofiles = k in (19, 20) and pre["files"] is None
        if bad or nofiles:
            if stp["status"] == 0.0:
                return "step %d: %s with an invalid value was accepted silently" % (i, name)
            if post != pre:
                return "step %d: %s raised %s but changed the object (%s)" % (i, name, stp["error"], [f for f in pre if pre[f] != post[f]])
            continue
        if stp["status"] != 0.0:
            return "step %d: valid call %s(%s) raised %s" % (i, name, {x: op[x] for x in op if x != "op"}, stp["error"])
        want = dict(pre)
        if k in scalar:
            want[scalar[k]] = float(op["v"])
        if k in (0, 1, 2):
            want["dr"] = arange_ref(want["rmin"], want["rmax"], want["rdelta"]).tolist()
        elif k == 3:
            want["dr"] = [float(x) for x in op["l"]]
        elif k in (7, 8):
            want["lowq" if k == 7 else "lorch"] = int(op["ia"] == 2)
        elif k in (9, 11, 12):
            want[{9: "cutoff", 11: "qmin", 12: "qmax"}[k]] = float(op["v"]) if op["ia"] else None
        elif k == 10:
            z, f = _mopts_codes(op["m"])
            want["merge"] = dict(zip(["hasY", "hasYs", "hasYo", "hasF", "Fnn", "hasFs", "hasFo"], z), Ys=f[0], Yo=f[1], Fs=f[2], Fo=f[3])
        elif k == 13:
            want["fn"] = op["ia"]
            want["tgr"], want["tgrft"], want["tgrl"] = 10 + op["ia"], 20 + op["ia"], 30 + op["ia"]
        elif k in (14, 15, 16):
            want[{14: "tgr", 15: "tgrft", 16: "tgrl"}[k]] = op["ia"]
        elif k == 17:
            want["tfix"] = list(pre["tfix"])
            want["tfix"][op["ia"]] = op["ib"]
        elif k == 18:
            want["files"] = list(op["l"]) if op["ia"] else None
        elif k == 19:
            want["files"] = pre["files"] + [op["ia"]]
        elif k == 20:
            want["files"] = pre["files"] + list(op["l"])
        elif k == 21:
            want["stem"] = op["ia"]
        for f in want:
            if want[f] != post[f]:
                if f == "dr":
                    a, b = np.asarray(want[f]), np.asarray(post[f])
                    what = "r grid has %d points, expected %d" % (len(b), len(a)) if len(a) != len(b) else "r grid differs by up to %g" % float(np.abs(a - b).max())
                    return "step %d: after %s = %r (Rmin %r, Rmax %r, Rdelta %r) the %s" % (i, name, op.get("v", op.get("l")), post["rmin"], post["rmax"], post["rdelta"], what)
                return "step %d: after %s(%s) the setting %r is %r, expected %r" % (i, name, {x: op[x] for x in op if x != "op"}, f, post[f], want[f])
        if k in (0, 1, 2) and len(post["dr"]) > 1 and post["rdelta"] > 0:
            dr = np.asarray(post["dr"])
            if dr[0] != post["rmin"] or dr[-1] < post["rmax"] - 1e-9 * (1 + abs(post["rmax"])) or dr[-1] > post["rmax"] + post["rdelta"] * (1 + 1e-9):
                return "step %d: after %s the r grid [%r .. %r] does not start at Rmin %r or does not cover Rmax %r exactly once" % (i, name, dr[0], dr[-1], post["rmin"], post["rmax"])
    return None
