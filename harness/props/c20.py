"""C20 -- rebinning is a linear, constant-preserving local weighted average."""
import math

import numpy as np

ID = "C20"
CHECKER = "chk_rebin"
THEOREMS = ['C20_grid', 'C20_hat_weights', 'C20_hat_weights_bin', 'C20_hat_support', 'C20_is_hat_average', 'C20_is_hat_average_nth', 'C20_inrange', 'C20_constant', 'C20_constant_nth', 'C20_linear', 'C20_between', 'C20_identity_on_grid', 'C20_grid_data_unchanged', 'C20_order_independent', 'C20_outside_window_irrelevant', 'C20_samples_outside_appended']
RULE = ("Pre_Proc.rebin on sorted / shuffled / irregular abscissae, points exactly on bin edges and on xmax, out-of-range points, "
        "(xmin, step, xmax) with integer and non-integer (xmax-xmin)/step; non-trivial = some y non-zero and every bin filled; "
        "distinct by input hash")


def generate(rng, tier):
    n = 150 if tier == "quick" else 1200
    cases = []
    for i in range(n):
        xmin = rng.choice([0.0, rng.uniform(-2, 2), 0.5])
        xdiv = rng.choice([0.25, 0.5, 1.0, rng.logu(0.05, 2.0)])
        nb = rng.randint(1, 12 if tier == "quick" else 40)
        xmax = xmin + xdiv * (nb if i % 2 else nb + rng.uniform(0.05, 0.95))
        kind = rng.choice(["dense", "dense", "on_grid", "edges", "edges", "sparse", "outside"])
        xs = []
        if kind == "dense":
            m = rng.randint(3 * nb, 6 * nb + 3)
            xs = [rng.uniform(xmin, xmax) for _ in range(m)]
        elif kind == "on_grid":
            xs = [xmin + k * xdiv for k in range(nb + 1) if xmin + k * xdiv <= xmax]
        elif kind == "edges":
            xs = [xmin + k * xdiv for k in range(nb + 1) if xmin + k * xdiv <= xmax] + [xmax, xmin] + [rng.uniform(xmin, xmax) for _ in range(2 * nb)]
        elif kind == "sparse":
            xs = [rng.uniform(xmin, xmax) for _ in range(rng.randint(1, nb + 1))]
        else:
            xs = [rng.uniform(xmin - 2, xmax + 2) for _ in range(4 * nb + 4)]
        order = rng.choice(["sorted", "shuffled"])
        if order == "sorted":
            xs.sort()
        else:
            rng.shuffle(xs)
        yk = rng.choice(["random", "const", "linear", "wide", "ints", "ints"])
        if yk == "random":
            ys = [rng.uniform(-3, 3) for _ in xs]
        elif yk == "const":
            ys = [2.5 for _ in xs]
        elif yk == "ints":
            ys = [float(rng.randint(-5, 9)) for _ in xs]
        elif yk == "linear":
            ys = [0.7 * v - 1.1 for v in xs]
        else:
            ys = [rng.sgn() * rng.logu(1e-6, 1e6) for _ in xs]
        cases.append({"x": xs, "y": ys, "xmin": xmin, "xdiv": xdiv, "xmax": xmax, "int_y": yk == "ints" and rng.choice(["list", "array", "no"]),
                      "desc": {"kind": kind, "int_y": yk == "ints", "order": order, "y": yk, "bins": nb, "integer_span": bool(i % 2)}})
    return cases


def call(pystog, x, y, xmin, xdiv, xmax):
    xo, yo = pystog.Pre_Proc.rebin(list(x), list(y), xmin, xdiv, xmax)
    return np.asarray(xo, float), np.asarray(yo, float)


def run_impl(pystog, case):
    y = case["y"]
    if case.get("int_y") == "list":
        y = [int(v) for v in y]
    elif case.get("int_y") == "array":
        y = np.array([int(v) for v in y], dtype=np.int64)
    form = (len(case["x"]) + int(case["desc"].get("bins", 0))) % 3
    if form == 0:       # on the class, positionally
        xo, yo = pystog.Pre_Proc.rebin(list(case["x"]), y, case["xmin"], case["xdiv"], case["xmax"])
    elif form == 1:     # on an instance that has been used before, by keyword, the abscissae as an array
        pp = pystog.Pre_Proc()
        pp.rebin([0.0, 1.0, 2.0, 3.0], [1.0, 2.0, 0.5, 4.0], 0.0, 1.0, 3.0)
        xo, yo = pp.rebin(x=np.array(case["x"], float), y=y, xmin=case["xmin"], xdiv=case["xdiv"], xmax=case["xmax"])
    else:               # on a fresh instance, the window as NumPy scalars
        xo, yo = pystog.Pre_Proc().rebin(list(case["x"]), y, np.float64(case["xmin"]), np.float64(case["xdiv"]), np.float64(case["xmax"]))
    xo, yo = np.asarray(xo, float), np.asarray(yo, float)
    return {"xout": xo.tolist(), "yout": yo.tolist()}


def empty_bin(case):
    """some returned bin receives no weight (0/0 in the normalisation: outside the property's quantifier)"""
    xmin, xdiv, xmax = case["xmin"], case["xdiv"], case["xmax"]
    n = int((xmax - xmin) / xdiv) + 1
    norm = [0.0] * (n + 1)
    for v in case["x"]:
        if xmin <= v <= xmax:
            b = int((v - xmin) / xdiv)
            s1 = 1 - (v - (xmin + b * xdiv)) / xdiv
            norm[b] += s1
            norm[b + 1] += 1 - s1
    return any(v == 0 for v in norm[:-1])


def to_coq(case, res):
    if res.get("exception") == "ZeroDivisionError" and empty_bin(case):
        return None  # the model yields NaN there; Python floats raise
    out = [[float("nan")], [float("nan")]] if "exception" in res else [res["xout"], res["yout"]]
    return ([case["x"], case["y"]], [case["xmin"], case["xdiv"], case["xmax"]], [], out)


def nontrivial(case, res):
    return "exception" not in res and any(case["y"]) and all(math.isfinite(v) for v in res["yout"])


def oracle(pystog, case, res):
    """grid = xmin + k*step, not beyond xmax; every filled bin equals the hat-weighted average (weights max(0, 1-|x-x_k|/step)) of the
    in-range points, computed independently; constants preserved; linear in y; between min and max of contributing y; on-grid data
    returned unchanged; independent of the input order"""
    if res.get("exception") == "ZeroDivisionError" and empty_bin(case):
        return None
    if "exception" in res:
        return "raised %s: %s" % (res["exception"], res["message"])
    xmin, xdiv, xmax = case["xmin"], case["xdiv"], case["xmax"]
    xo, yo = np.array(res["xout"]), np.array(res["yout"])
    n = int((xmax - xmin) / xdiv) + 1
    if len(xo) != n or len(yo) != n:
        return "wrong number of bins"
    if any(abs(v - (xmin + k * xdiv)) > 1e-12 * (1 + abs(v)) for k, v in enumerate(xo)) or xo[-1] > xmax + 1e-12:
        return "output grid is not xmin + k*step within xmax"
    xs, ys = np.array(case["x"], float), np.array(case["y"], float)
    inr = (xs >= xmin) & (xs <= xmax)
    filled = []
    for k in range(n):
        w = np.maximum(0.0, 1 - np.abs(xs[inr] - xo[k]) / xdiv)
        if w.sum() > 1e-9:
            filled.append(k)
            want = float((w * ys[inr]).sum() / w.sum())
            mag = float((w * np.abs(ys[inr])).sum() / w.sum())
            ymax = float(np.abs(ys[inr]).max())
            if not abs(yo[k] - want) <= 1e-9 * (mag + 1e-300) + 1e-12 * ymax / w.sum():
                return "bin %d: %r, hat-weighted average %r" % (k, float(yo[k]), want)
            c = ys[inr][w > 1e-12]
            if not (c.min() - 1e-9 * mag - 1e-12 * ymax / w.sum() <= yo[k] <= c.max() + 1e-9 * mag + 1e-12 * ymax / w.sum()):
                return "bin %d value outside the range of the contributing y" % k
    if not filled:
        return None
    _, y1 = call(pystog, xs, np.full_like(ys, 3.25), xmin, xdiv, xmax)
    if any(abs(y1[k] - 3.25) > 1e-12 for k in filled):
        return "constant not preserved"
    y2 = np.cos(xs * 1.3)
    _, o2 = call(pystog, xs, y2, xmin, xdiv, xmax)
    _, o3 = call(pystog, xs, 2.0 * ys - 0.5 * y2, xmin, xdiv, xmax)
    for k in filled:
        if abs(o3[k] - (2.0 * yo[k] - 0.5 * o2[k])) > 1e-9 * (1 + 2 * abs(yo[k]) + abs(o2[k])):
            return "not linear in y"
    # local: samples outside [xmin, xmax] (made huge here; two more appended well beyond either end) have no influence at all
    far = np.where(inr, ys, 1e18 * np.where(np.arange(len(ys)) % 2 == 0, 1.0, -0.5))
    xs5 = np.concatenate((xs, [xmax + 3.0 * xdiv, xmin - 3.0 * xdiv]))
    ys5 = np.concatenate((far, [1e18, 3e17]))
    _, o5 = call(pystog, xs5, ys5, xmin, xdiv, xmax)
    for k in filled:
        if not abs(o5[k] - yo[k]) <= 1e-9 * (1e-300 + abs(yo[k])) + 1e-12 * float(np.abs(ys[inr]).max()):
            return "bin %d changes from %r to %r when samples outside [xmin, xmax] are changed" % (k, float(yo[k]), float(o5[k]))
    perm = np.argsort(-xs, kind="stable")
    _, o4 = call(pystog, xs[perm], ys[perm], xmin, xdiv, xmax)
    for k in filled:
        if abs(o4[k] - yo[k]) > 1e-9 * (1 + abs(yo[k])):
            return "depends on the order of the input points"
    if case["desc"]["kind"] == "on_grid":
        for k in filled:
            j = int(np.argmin(np.abs(xs - xo[k])))
            if abs(xs[j] - xo[k]) < 1e-12 and abs(yo[k] - ys[j]) > 1e-9 * (1 + abs(ys[j])):
                return "on-grid data not returned unchanged"
    return None
