"""C03 -- reciprocal-space conversions follow their definitions and invert each other."""
import math

import numpy as np

from . import convlib as L

ID = "C03"
CHECKER = "chk_conv"
THEOREMS = ['C03_pointwise', 'C03_defining_formulas', 'C03_roundtrip', 'C03_two_step_paths', 'C03_value_at_Q0', 'C03_rconv', 'C03_rconv_sharp', 'C03_rconv_needs_b', 'C03_guard_is_needed']
RULE = ("all 12 ordered pairs x sampled grids (uniform/jittered/non-uniform/edge values incl. 0, negative, denormal), "
        "values around 1 / wide / integer / zero, material constants over 3 decades, bcoh of either sign; "
        "non-trivial = some function value or uncertainty non-zero; distinct by hash of the inputs")
SPACE = 0
RAT0 = None


def generate(rng, tier):
    return L.gen_conv_cases(rng, tier, SPACE, 0, signed_bcoh=True)


run_impl = L.run_conv
to_coq = L.conv_to_coq
nontrivial = L.nontrivial_conv


def conv0(space, a, b, v, m):
    """conventional value at x = 0"""
    t = m["btot"]
    if a == b:
        return v
    if space == 0:
        Y = L.RN[b]
        X = L.RN[a]
        if Y == "S":
            return 1.0
        if Y == "F":
            return 0.0
        if Y == "FK":
            return v - t if X == "DCS" else 0.0
        return v + t if X == "FK" else t
    return 1.0 if L.GN[b] == "g" else 0.0


def exact_formula(space, a, b, x, v, m):
    """the defining formula in exact rational arithmetic on the binary64 inputs (pi = the binary64 pi)"""
    from fractions import Fraction as Fr
    x, v = Fr(x), Fr(v)
    bc, bt, rho, pi = Fr(m["bcoh"]), Fr(m["btot"]), Fr(m["rho"]), Fr(math.pi)
    if space == 0:
        base = [v, v / x + 1, v / bc + 1, (v - bt) / bc + 1][a]
        return [base, x * (base - 1), bc * (base - 1), bc * (base - 1) + bt][b]
    base = [v, v / (4 * pi * rho * x) + 1, v / bc + 1][a]
    return [base, 4 * pi * rho * x * (base - 1), bc * (base - 1)][b]


def oracle(pystog, case, res):
    """defining formula for x>0 (float64, 1e-9 of the term magnitudes); round trip Y->X(X->Y(v)) = v;
    two-step paths through every intermediate; finite conventional value at x = 0"""
    if "exception" in res:
        return "conversion raised %s: %s" % (res["exception"], res["message"])
    msg_ = L.same_arrays_twice(pystog, case)
    if msg_:
        return msg_
    sp, a, b, m = case["space"], case["X"], case["Y"], case["mat"]
    names = L.RN if sp == 0 else L.GN
    x = np.array(case["x"], float)
    y = np.array(case["y"], float)
    v = res["val"]
    if v is None or len(v) != len(x):
        return "value output has wrong shape"
    v = np.array(v, float)
    pos = (x >= 1e-3) & (x <= 1e3)  # outside, products under/overflow or cancel: rounding, not the property
    if sp == 1 and not (m["rho"] > 0 and m["bcoh"] > 0):
        pos = pos & False
    with np.errstate(all="ignore"):
        if pos.any():
            xs, ys = x[pos], y[pos]
            base = L.to_base(sp, a, xs, ys, m)
            want = L.from_base(sp, b, xs, base, m)
            scale = 1 + np.abs(want) + np.abs(L.from_base(sp, b, xs, 1 + np.abs(base - 1), m)) + abs(m["btot"])
            bad = np.abs(v[pos] - want) > 1e-9 * scale
            if np.isfinite(want).all() and bad.any():
                i = int(np.flatnonzero(bad)[0])
                return "%s_to_%s: value %r at x=%r differs from the defining formula %r" % (names[a], names[b], float(v[pos][i]), float(xs[i]), float(want[i]))
            # round trip on the implementation
            back, _ = L.call_conv(pystog, sp, b, a, xs, v[pos], None, m)
            s2 = 1 + np.abs(ys) + np.abs(L.from_base(sp, a, xs, 1 + np.abs(base - 1), m)) + abs(m["btot"]) + L.deriv(sp, b, a, xs, m) * scale
            bad = np.abs(np.asarray(back, float) - ys) > 1e-9 * s2
            if np.isfinite(back).all() and bad.any():
                i = int(np.flatnonzero(bad)[0])
                return "%s_to_%s then back: %r != original %r at x=%r" % (names[a], names[b], float(back[i]), float(ys[i]), float(xs[i]))
            for z in range(len(names)):
                if z in (a, b):
                    continue
                mid, _ = L.call_conv(pystog, sp, a, z, xs, ys, None, m)
                two, _ = L.call_conv(pystog, sp, z, b, xs, np.asarray(mid, float), None, m)
                bad = np.abs(np.asarray(two, float) - v[pos]) > 1e-9 * scale
                if np.isfinite(two).all() and bad.any():
                    i = int(np.flatnonzero(bad)[0])
                    return "path %s->%s->%s gives %r, direct %r at x=%r" % (names[a], names[z], names[b], float(two[i]), float(v[pos][i]), float(xs[i]))
        # a weak signal (deviation from the conventional value ~1e-9 .. 1e-13): the result is still the defining formula to 1e-9 of
        # ITS OWN magnitude (a detour through "1 + small" and back would lose those digits)
        if case["desc"].get("values") == "tiny signal" and pos.any() and (sp == 0 or (m["rho"] > 0 and m["bcoh"] > 0)):
            for xi, yi, vi in zip(x[pos], y[pos], v[pos]):
                ex = exact_formula(sp, a, b, float(xi), float(yi), m)
                if ex != 0 and np.isfinite(vi) and abs(float(vi) - float(ex)) > 1e-9 * abs(float(ex)) + 1e-300:
                    return "%s_to_%s: weak signal %r at x=%r converts to %r, the defining formula gives %r (relative error %.2g)" % (
                        names[a], names[b], float(yi), float(xi), float(vi), float(ex), abs(float(vi) - float(ex)) / abs(float(ex)))
        # a strictly positive abscissa is not zero, however small (round-off of a shifted grid, 1e-15 next to 40): defining formula
        tiny = (x >= 1e-290) & (x < 1e-3) & np.isfinite(y)      # (below that, products with x are subnormal: rounding)
        if sp == 1 and not (m["rho"] > 0 and m["bcoh"] > 0):
            tiny = tiny & False
        if tiny.any():
            xs, ys = x[tiny], y[tiny]
            base = L.to_base(sp, a, xs, ys, m)
            want = L.from_base(sp, b, xs, base, m)
            scale = 1 + np.abs(want) + np.abs(L.from_base(sp, b, xs, 1 + np.abs(base - 1), m)) + abs(m["btot"]) + np.abs(ys)
            ok = np.isfinite(want) & np.isfinite(scale) & np.isfinite(v[tiny]) & (np.abs(want) < 1e290)
            bad = ok & (np.abs(v[tiny] - want) > 1e-9 * scale)
            if bad.any():
                i = int(np.flatnonzero(bad)[0])
                return "%s_to_%s: value %r at the small positive x=%r differs from the defining formula %r (treated as x = 0?)" % (
                    names[a], names[b], float(v[tiny][i]), float(xs[i]), float(want[i]))
        zero = x == 0
        if zero.any() and np.isfinite(y).all():
            vz = v[zero]
            if not np.isfinite(vz).all():
                return "%s_to_%s is not finite at x=0: %r" % (names[a], names[b], vz.tolist()[:3])
            want0 = np.array([conv0(sp, a, b, t, m) for t in y[zero]])
            if (np.abs(vz - want0) > 1e-9 * (1 + np.abs(want0))).any():
                return "%s_to_%s at x=0 gives %r, conventional value %r" % (names[a], names[b], vz.tolist()[:3], want0.tolist()[:3])
    return None
