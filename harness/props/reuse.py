"""One object, several calls: what a caller may do between calls must not leak into a later result, and a result already
handed out must not change when the object is used again.

prime(call):  call the method twice on the same object with other data of the same shapes (once without uncertainties,
              once with), and update every floating array it hands back in place (the caller owns what it was given);
hold(...)  :  after the real call, call again with other data and check that the arrays returned by the real call are
              still what they were."""
import numpy as np


def scribble(arrs):
    for a in arrs:
        if isinstance(a, np.ndarray) and a.dtype.kind == "f" and a.flags.writeable:
            try:
                a += 0.37
            except Exception:
                pass


def alt_data(y, n=None):
    n = len(y) if n is None else n
    alt_y = [0.25 + 0.5 * float(v) for v in y][:n] + [0.5] * max(0, n - len(y))
    alt_d = [0.05 + 0.01 * (i % 7) for i in range(n)]
    return alt_y, alt_d


def prime(call):
    """call(alt, with_dy) -> tuple of returned arrays; exceptions of the primer calls are not the case's business"""
    for with_dy in (False, True):
        try:
            scribble(call(True, with_dy))
        except Exception:
            pass


def provoke(obj, attempts):
    """calls that fail (attempts: (method name, args, kwargs)), made on the object before the call under test; the caller catches
    the error and carries on -- a failed call may not leave anything behind in the object"""
    n = 0
    for name, args, kw in attempts:
        try:
            getattr(obj, name)(*args, **kw)
        except Exception:
            n += 1
    return n


def hold(call, outs, what):
    """outs: the arrays as returned by the real call.  Returns a message or None."""
    keep = [None if not isinstance(a, np.ndarray) else a.copy() for a in outs]
    try:
        call(True, True)
    except Exception:
        return None
    for i, (a, k) in enumerate(zip(outs, keep)):
        if k is not None and not np.array_equal(a, k, equal_nan=True):
            return "%s: output %d handed out by an earlier call changed when the same object was used again (shared buffer)" % (what, i)
    return None


def refilled_in_place(f_same, f_fresh, arrays, which, what):
    """call f_same(*arrays) on one object, refill arrays[which] in place (the caller owns it), call again with the very same
    array objects: the second result must be that of a fresh object on the new contents.  Returns a message or None."""
    try:
        f_same(*arrays)
        a = arrays[which]
        if not (isinstance(a, np.ndarray) and a.dtype.kind == "f" and a.flags.writeable) or a.size == 0:
            return None
        a *= 1.5
        a += 0.25
        second = f_same(*arrays)
        fresh = f_fresh(*[None if t is None else np.array(t, copy=True) for t in arrays])
    except Exception:
        return None
    for i, (u, w) in enumerate(zip(second, fresh)):
        if (u is None) != (w is None) or (u is not None and not np.array_equal(np.asarray(u, float), np.asarray(w, float), equal_nan=True)):
            return "%s: after argument %d was refilled in place and the call repeated with the same array objects, output %d is not that of the new contents" % (what, which, i)
    return None
