"""One object, several calls: what a caller may do between calls must not leak into a later result, and a result already
handed out must not change when the object is used again.

prime(call):  call the method twice on the same object with other data of the same shapes (once without uncertainties,
              once with), and update every floating array it hands back in place (the caller owns what it was given);
hold(...)  :  after the real call, call again with other data and check that the arrays returned by the real call are
              still what they were."""
import numpy as np


def scribble(arrs):
    for a in arrs:
        if isinstance(a, np.ndarray) and a.dtype.kind == "f" and a.flags.writeable:
            try:
                a += 0.37
            except Exception:
                pass


def alt_data(y, n=None):
    n = len(y) if n is None else n
    alt_y = [0.25 + 0.5 * float(v) for v in y][:n] + [0.5] * max(0, n - len(y))
    alt_d = [0.05 + 0.01 * (i % 7) for i in range(n)]
    return alt_y, alt_d


def prime(call):
    """call(alt, with_dy) -> tuple of returned arrays; exceptions of the primer calls are not the case's business"""
    for with_dy in (False, True):
        try:
            scribble(call(True, with_dy))
        except Exception:
            pass


def hold(call, outs, what):
    """outs: the arrays as returned by the real call.  Returns a message or None."""
    keep = [None if not isinstance(a, np.ndarray) else a.copy() for a in outs]
    try:
        call(True, True)
    except Exception:
        return None
    for i, (a, k) in enumerate(zip(outs, keep)):
        if k is not None and not np.array_equal(a, k, equal_nan=True):
            return "%s: output %d handed out by an earlier call changed when the same object was used again (shared buffer)" % (what, i)
    return None
