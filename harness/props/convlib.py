"""Case generation / implementation runner shared by the conversion
properties C03, C04 and C06."""
import math

import numpy as np

RN = ["S", "F", "FK", "DCS"]
GN = ["g", "G", "GK"]


def grid(rng, n, kind):
    if kind == "uniform0":
        h = rng.logu(1e-3, 1.0)
        return [i * h for i in range(n)]
    if kind == "uniform":
        h = rng.logu(1e-3, 1.0)
        x0 = rng.logu(1e-3, 2.0)
        return [x0 + i * h for i in range(n)]
    if kind == "jitter":
        h = rng.logu(1e-3, 1.0)
        x0 = rng.choice([0.0, rng.logu(1e-3, 2.0)])
        return [x0 + (i + (rng.uniform(-0.3, 0.3) if i else 0.0)) * h for i in range(n)]
    if kind == "nonuniform":
        x, out = rng.choice([0.0, rng.logu(1e-4, 1.0)]), []
        for _ in range(n):
            out.append(x)
            x += rng.logu(1e-4, 2.0)
        return out
    if kind == "edge":  # zeros, negatives, denormals, repeats -- conversions are pointwise
        pool = [0.0, -0.0, 5e-324, 2.2250738585072014e-308, -1e-300, -1.0, -rng.logu(1e-3, 10), 1e-12, 1e12]
        return [rng.choice(pool + [rng.logu(1e-3, 30)]) for _ in range(n)]
    raise ValueError(kind)


def values(rng, n, kind):
    if kind == "around1":
        return [1.0 + rng.uniform(-1, 1) * rng.logu(1e-6, 3.0) for _ in range(n)]
    if kind == "wide":
        return [rng.sgn() * rng.logu(1e-6, 1e6) for _ in range(n)]
    if kind == "ints":
        return [float(rng.randint(-5, 5)) for _ in range(n)]
    if kind == "zeros":
        return [0.0] * n
    raise ValueError(kind)


def uncert(rng, n):
    kind = rng.choice(["none", "zeros", "sparse", "pos", "large"])
    if kind == "none":
        return kind, None
    if kind == "zeros":
        return kind, [0.0] * n
    if kind == "sparse":
        return kind, [rng.logu(1e-6, 1.0) if rng.random() < 0.3 else 0.0 for _ in range(n)]
    if kind == "pos":
        return kind, [rng.logu(1e-6, 1.0) for _ in range(n)]
    return kind, [rng.logu(1.0, 1e6) for _ in range(n)]


def material(rng, signed_bcoh=False):
    b = rng.logu(0.05, 200.0)
    if signed_bcoh and rng.random() < 0.25:
        b = -b
    return {"rho": rng.logu(1e-3, 2.0), "bcoh": b, "btot": rng.choice([0.0, rng.logu(0.05, 300.0), -rng.logu(0.05, 3.0)]),
            "kworder": rng.randint(0, 5)}


_ORDERS = [("rho", "<b_coh>^2", "<b_tot^2>"), ("rho", "<b_tot^2>", "<b_coh>^2"), ("<b_coh>^2", "rho", "<b_tot^2>"),
           ("<b_coh>^2", "<b_tot^2>", "rho"), ("<b_tot^2>", "rho", "<b_coh>^2"), ("<b_tot^2>", "<b_coh>^2", "rho")]


def kwargs_of(m, **extra):
    """the material constants as keywords, in the order this caller happens to write them"""
    vals = {"rho": m["rho"], "<b_coh>^2": m["bcoh"], "<b_tot^2>": m["btot"]}
    if m.get("const_int"):      # whole-number scattering lengths written without a decimal point (Python int) or read from an integer column (np.int64)
        for name in ("<b_coh>^2", "<b_tot^2>"):
            if float(vals[name]).is_integer():
                vals[name] = int(vals[name]) if m["const_int"] == "py" else np.int64(vals[name])
    k = {name: vals[name] for name in _ORDERS[m.get("kworder", 0) % 6]}
    k.update(extra)
    return k


def needed_keys(space, a, b):
    """the material constants a conversion really uses (a caller need not supply the others)"""
    names = RN if space == 0 else GN
    A, B = names[a], names[b]
    need = set()
    if space == 0:
        if "FK" in (A, B) or "DCS" in (A, B):
            need.add("<b_coh>^2")
        if "DCS" in (A, B):
            need.add("<b_tot^2>")
    else:
        if A != B and ("g" in (A, B) or (A, B) in (("G", "GK"), ("GK", "G"))):
            need.add("rho")
        if "GK" in (A, B):
            need.add("<b_coh>^2")
    return need


def gen_conv_cases(rng, tier, space, channel, signed_bcoh=False, force_pos=False, nonfinite_dy=False):
    names = RN if space == 0 else GN
    pairs = [(a, b) for a in range(len(names)) for b in range(len(names)) if a != b]
    reps = 6 if tier == "quick" else 40
    cases = []
    for rep in range(reps):
        for (a, b) in pairs:
            n = rng.choice([1, 2, 3, 5, 7, 13, rng.randint(1, 40)] + ([0] if rep % 3 == 2 else []))     # (an empty selection converts to an empty result)
            gk = rng.choice(["uniform0", "uniform", "jitter", "nonuniform"] + ([] if force_pos else ["edge"]))
            x = grid(rng, n, gk)
            if force_pos:
                x = [abs(v) if v != 0 else rng.logu(1e-3, 1) for v in x]
            if not force_pos and gk != "edge" and x and x[0] == 0.0 and rng.random() < 0.35:
                # a first point that is round-off, not zero (r = 0.1*k - 0.3 gives 5.55e-17), next to ordinary abscissae
                x = [rng.choice([5.551115123125783e-17, 1e-15, 3e-9])] + x[1:]
                gk = gk + "+tiny0"
            vk = rng.choice(["around1", "wide", "ints", "zeros"]) if rep else "around1"
            y = values(rng, n, vk)
            dk, dy = uncert(rng, n)
            if nonfinite_dy and dy is not None and n >= 2 and rng.random() < 0.15:
                # uncertainties near the ends of the floating-point range (their squares under- or overflow; the first-order rule has no squares)
                dy = [v * rng.choice([1e-200, 1e-170, 1e180]) for v in dy]
                dk = "extreme magnitudes"
            if nonfinite_dy and n >= 2 and rng.random() < 0.12:
                y = list(y)
                y[rng.randrange(n)] = rng.choice([float("nan"), float("inf"), -float("inf")])      # a dead / saturated sample in the function values
                vk = vk + "+nonfinite sample"
            if nonfinite_dy and dy is not None and n >= 2 and rng.random() < 0.2:
                dy = list(dy)
                dy[rng.randrange(n)] = float("inf")        # "value unknown / no weight"
                if rng.random() < 0.4:
                    dy[rng.randrange(n)] = float("nan")
                dk = "nonfinite entries"
            # every method sees, whatever the seed: the uncertainty by keyword (rep 1), integer-typed function and uncertainty arrays
            # (rep 2), a weak signal around the conventional value (rep 3)
            forced_ints = False
            if rep % 6 == 1 and n >= 1 and (dy is None or dk in ("nonfinite entries", "extreme magnitudes")):
                dk, dy = "pos", [rng.logu(1e-6, 1.0) for _ in range(n)]
            if rep % 6 == 2 and n >= 1:
                vk, y = "ints", values(rng, n, "ints")
                dk, dy = "ints", [float(rng.randint(0, 5)) for _ in range(n)]
                forced_ints = True
            if rep % 6 == 3 and n >= 1:
                base_ = 1.0 if names[a] in ("S", "g") else 0.0
                amp_ = rng.choice([1e-9, 1e-11, 1e-13])
                vk, y = "tiny signal", [base_ + amp_ * rng.uniform(-2, 2) for _ in range(n)]
            if nonfinite_dy and rep % 6 == 4 and n >= 2:
                dk, dy = "extreme magnitudes", [rng.logu(1e-3, 1.0) * (1e-200 if (a + b) % 2 else 1e180) for _ in range(n)]
            if nonfinite_dy and rep % 6 == 5 and n >= 2:
                y = list(values(rng, n, "around1"))
                y[n // 2] = [float("nan"), float("inf"), -float("inf")][(a + b) % 3]
                vk = "around1+nonfinite sample"
                if (a * 3 + b) % 2 == 0:
                    dk, dy = "none", None
            m = material(rng, signed_bcoh)
            if rep % 6 == 4:      # whole-number constants handed over as integers
                m["bcoh"] = float(2 + (a * 5 + b) % 6) * (-1.0 if m["bcoh"] < 0 else 1.0)
                m["btot"] = float([0, 3, 5, 9][(a + b) % 4])
                m["const_int"] = "py" if (a + b) % 2 else "np"
            # integer-typed arrays with the same values must behave like floating ones
            idt = [False, False, False]
            if forced_ints:
                idt = [False, True, True]
            elif vk == "ints" and rng.random() < 0.7:
                idt[1] = True
                if rng.random() < 0.5:
                    x = [float(rng.randint(0, 9)) if force_pos is False else float(rng.randint(1, 9)) for _ in range(n)]
                    gk = "intgrid"
                    idt[0] = True
                if dy is not None and rng.random() < 0.5:
                    dy = [float(rng.randint(0, 5)) for _ in range(n)]
                    dk = "ints"
                    idt[2] = True
            cases.append({
                "space": space, "X": a, "Y": b, "x": x, "y": y, "dy": dy, "mat": m, "channel": channel, "int_dtype": idt,
                "callform": "kw" if (dy is not None and rep % 3 == 1) else "pos",
                "minimal_kw": bool(rep % 2),
                "desc": {"method": "%s_to_%s" % (names[a], names[b]), "n": n, "grid": gk, "values": vk,
                         "dy": dk, "has_zero": any(v == 0 for v in x), "has_neg": any(v < 0 for v in x), "int_arrays": "".join("1" if t else "0" for t in idt),
                         "bcoh_neg": m["bcoh"] < 0, "integer_constants": m.get("const_int", "no"), "uncertainty_by_keyword": bool(dy is not None and rep % 3 == 1)},
            })
    return cases


# the documented name of the uncertainty parameter of each conversion / named transform (pinned public signatures)
def unc_kw(name):
    src = name.split("_to_")[0]
    if src == "DCS":
        return "ddcs"
    if src == "FK":
        return "dfq" if name == "FK_to_DCS" else "dfq_keen"
    if src == "F":
        return "dfq"
    if src == "S":
        return "dsq"
    return "dgr"


def call_conv(pystog, space, a, b, x, y, dy, m, idt=(False, False, False), cv=None, callform="pos", minimal=False):
    names = RN if space == 0 else GN
    cv = cv or pystog.Converter()
    name = "%s_to_%s" % (names[a], names[b])
    f = getattr(cv, name)
    x = np.array(x, dtype=np.int64 if idt[0] else float)
    y = np.array(y, dtype=np.int64 if idt[1] else float)
    d = None if dy is None else np.array(dy, dtype=np.int64 if idt[2] else float)
    kw = kwargs_of(m)
    if minimal:
        need = needed_keys(space, a, b)
        kw = {k: v_ for k, v_ in kw.items() if k in need}
    if callform == "kw" and d is not None:
        v, e = f(x, y, **dict(kw, **{unc_kw(name): d}))
    else:
        v, e = f(x, y, d, **kw)
    return v, e


def run_conv(pystog, case):
    """the conversion is made on a Converter object that has been used before (reuse.prime), and the object is used again
    afterwards (reuse.hold)"""
    from . import reuse
    cv = pystog.Converter()
    names = RN if case["space"] == 0 else GN
    what = "%s_to_%s" % (names[case["X"]], names[case["Y"]])
    idt = case.get("int_dtype", (False, False, False))
    alt_y, alt_d = reuse.alt_data(case["y"])

    def call(alt, with_dy):
        if alt:
            return call_conv(pystog, case["space"], case["X"], case["Y"], case["x"], alt_y, alt_d if with_dy else None, case["mat"], cv=cv)
        return call_conv(pystog, case["space"], case["X"], case["Y"], case["x"], case["y"], case["dy"], case["mat"], idt, cv=cv,
                         callform=case.get("callform", "pos"), minimal=case.get("minimal_kw", False))
    # first some calls that fail (the caller catches the error), then successful ones with other data, then the call under test
    x_ = np.linspace(0.5, 3.0, 6)
    reuse.provoke(cv, [(n_, a_, k_) for n_ in ("F_to_S", "S_to_FK", "FK_to_DCS", "G_to_g", "g_to_GK", "GK_to_G")
                       for a_, k_ in (((x_, np.ones(5)), kwargs_of(case["mat"])), ((x_, np.ones(6)), {}), ((x_, "n/a"), kwargs_of(case["mat"])))])
    reuse.prime(call)
    v, e = call(False, None)
    res = {"val": None if v is None else [float(t) for t in np.asarray(v, dtype=float)],
           "err": None if e is None else [float(t) for t in np.asarray(e, dtype=float)]}
    msg = reuse.hold(call, (v, e), what)
    if msg:
        res["reuse_error"] = msg
    return res


def conv_to_coq(case, res):
    if "exception" in res:
        out = [[], []]
    else:
        out = [res["val"] if res["val"] is not None else [], res["err"] if res["err"] is not None else []]
        # a None where an array belongs must not compare equal to an empty model output
        if res["val"] is None:
            out[0] = [float("nan")]
        if res["err"] is None:
            out[1] = [float("nan")]
    dy = case["dy"]
    m = case["mat"]
    return ([case["x"], case["y"], dy if dy is not None else []],
            [m["rho"], m["bcoh"], m["btot"]],
            [case["space"], case["X"], case["Y"], 0 if dy is None else 1, case["channel"]],
            out)


def nontrivial_conv(case, res):
    return "exception" not in res and any(v != 0 for v in case["y"]) or (case["dy"] is not None and any(v != 0 for v in case["dy"]))


# ---- exact-ish defining formulas (float64, only used as a search oracle) ----
def to_base(space, a, x, v, m):
    b, t, p = m["bcoh"], m["btot"], m["rho"]
    if space == 0:
        return [v, v / x + 1, v / b + 1, (v - t) / b + 1][a]
    return [v, v / (4 * math.pi * p * x) + 1, v / b + 1][a]


def from_base(space, bidx, x, s, m):
    b, t, p = m["bcoh"], m["btot"], m["rho"]
    if space == 0:
        return [s, x * (s - 1), b * (s - 1), b * (s - 1) + t][bidx]
    return [s, 4 * math.pi * p * x * (s - 1), b * (s - 1)][bidx]


def deriv(space, a, bidx, x, m):
    """|d Y / d X| for x > 0."""
    b, p = m["bcoh"], m["rho"]
    if space == 0:
        d_to = [1.0, 1 / x, 1 / b, 1 / b][a]
        d_from = [1.0, x, b, b][bidx]
    else:
        d_to = [1.0, 1 / (4 * math.pi * p * x), 1 / b][a]
        d_from = [1.0, 4 * math.pi * p * x, b][bidx]
    return abs(d_to * d_from)


def same_arrays_twice(pystog, case):
    """call the conversion twice with the very same array objects; returns a message if the arguments were altered
    or the second result differs"""
    names = RN if case["space"] == 0 else GN
    f = getattr(pystog.Converter(), "%s_to_%s" % (names[case["X"]], names[case["Y"]]))
    x = np.array(case["x"], float)
    y = np.array(case["y"], float)
    d = None if case["dy"] is None else np.array(case["dy"], float)
    keep = [a.copy() if a is not None else None for a in (x, y, d)]
    kw = kwargs_of(case["mat"])
    first = f(x, y, d, **kw)
    for nm, a, b in zip(("abscissa", "function", "uncertainty"), (x, y, d), keep):
        if a is not None and not np.array_equal(a, b, equal_nan=True):
            return "%s_to_%s altered the %s array it was given" % (names[case["X"]], names[case["Y"]], nm)
    second = f(x, y, d, **kw)
    nm = "%s_to_%s" % (names[case["X"]], names[case["Y"]])
    for u, w in zip(first, second):
        if (u is None) != (w is None) or (u is not None and not np.array_equal(np.asarray(u, float), np.asarray(w, float), equal_nan=True)):
            return "%s gives a different result when called again with the same arrays" % nm

    from . import reuse
    for which in (1, 0):
        fresh_f = getattr(pystog.Converter(), nm)
        msg = reuse.refilled_in_place(lambda a_, b_, c_: f(a_, b_, c_, **kw), lambda a_, b_, c_: fresh_f(a_, b_, c_, **kw),
                                      [x.copy(), y.copy(), None if d is None else d.copy()], which, nm)
        if msg:
            return msg

    def same(u, w):
        return (u is None and w is None) or (u is not None and w is not None
                                             and np.array_equal(np.asarray(u, float).ravel(), np.asarray(w, float).ravel(), equal_nan=True))
    # the documented argument type is "numpy.array or list": the uncertainty as a list / tuple is the same uncertainty
    if d is not None:
        for form in (list, tuple):
            try:
                other = f(x, y, form(d.tolist()), **kw)
            except Exception as e:
                return "%s raises %s when the uncertainty is given as a %s" % (nm, type(e).__name__, form.__name__)
            if not all(same(u, w) for u, w in zip(first, other)):
                return "%s gives a different result when the uncertainty is given as a %s instead of an array" % (nm, form.__name__)
    # conversions are pointwise: column vectors (n, 1), row vectors (1, n) and single numbers are converted element by element
    if len(case["x"]) >= 2 and not any(v != v for v in (case["dy"] or [])):
        for shape, what in (((-1, 1), "column vectors of shape (n, 1)"), ((1, -1), "row vectors of shape (1, n)")):
            try:
                col = f(x.reshape(shape), y.reshape(shape), None if d is None else d.reshape(shape), **kw)
            except Exception as e:
                return "%s raises %s for %s" % (nm, type(e).__name__, what)
            if not all(same(u, w) for u, w in zip(first, col)):
                return "%s converts %s differently from the same values as 1-D arrays" % (nm, what)
        j = len(case["x"]) // 2
        try:
            one = f(x[j], y[j], None if d is None else d[j], **kw)
        except Exception as e:
            return "%s raises %s for a single number (0-d input)" % (nm, type(e).__name__)
        if not all(same(np.asarray(u, float).ravel()[j:j + 1], w) for u, w in zip(first, one)):
            return "%s converts a single number differently from the same value inside an array" % nm
    return None
