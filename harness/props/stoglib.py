"""Generators / runners for the stateful StoG core (C10, C11, C12, C17)."""
import math

import numpy as np

from . import convlib as L

KINDS = ["S(Q)", "Q[S(Q)-1]", "FK(Q)", "DCS(Q)"]
FNS = ["g(r)", "G(r)", "GK(r)"]


def gen_dataset(rng, tier, kind=None, offsets=True):
    n = rng.choice([1, 2, 3, 5, rng.randint(2, 25 if tier == "quick" else 80)])
    step = rng.choice([0.01, 0.02, 0.05, 0.1])
    q0 = round(rng.choice([0.0, 0.1, 0.3, 1.0]) + step * rng.randint(0, 5), 2)
    style = rng.choice(["exact", "jitter", "halfway", "unsorted"])
    x = [q0 + i * step for i in range(n)]
    if style == "jitter":
        x = [v + rng.uniform(-0.004, 0.004) for v in x]
    elif style == "halfway":
        x = [v + 0.005 for v in x]
    elif style == "unsorted":
        rng.shuffle(x)
    kind = rng.randrange(4) if kind is None else kind
    s = [1 + math.sin(3 * v) * math.exp(-v / 5) + rng.uniform(-0.05, 0.05) for v in x]
    mat = None
    d = {"x": x, "kind": kind, "style": style}
    d["s_true"] = s
    d["dy"] = None if rng.random() < 0.3 else [rng.logu(1e-4, 0.1) for _ in x]
    lo, hi = min(x), max(x)
    # (also: an edge exactly on the 0.01-resolution value of a point whose raw abscissa lies a hair to either side of it)
    d["Qmin"] = None if rng.random() < 0.5 else rng.choice([lo, round(lo + (hi - lo) * rng.random(), 2), lo - 0.1, rng.uniform(lo, hi), round(x[rng.randrange(n)], 2)])
    d["Qmax"] = None if rng.random() < 0.5 else rng.choice([hi, round(lo + (hi - lo) * rng.random(), 2), hi + 0.1, rng.uniform(lo, hi), round(x[rng.randrange(n)], 2)])
    if d["Qmin"] is not None and d["Qmax"] is not None and d["Qmin"] > d["Qmax"]:
        d["Qmin"], d["Qmax"] = d["Qmax"], d["Qmin"]
    if rng.random() < 0.5:
        d["Y"] = {}
        if rng.random() < 0.7:
            d["Y"]["Scale"] = rng.choice([1.0, 2.0, rng.uniform(0.5, 1.5)])
        if rng.random() < 0.7:
            d["Y"]["Offset"] = rng.choice([0.0, 0.1, rng.uniform(-0.3, 0.3)])
    else:
        d["Y"] = None
    if offsets and rng.random() < 0.45:
        d["X"] = {}
        if rng.random() < 0.8:
            d["X"]["Offset"] = rng.choice([0.1, 0.01, -0.1, 0.3, round(rng.uniform(-0.5, 0.5), 2), rng.uniform(-0.2, 0.2)])
    else:
        d["X"] = None
    return d


def finish_dataset(d, mat):
    """the y column in the dataset's own function kind, from the underlying S(Q)"""
    x = np.array(d["x"], float)
    with np.errstate(all="ignore"):
        y = L.from_base(0, d["kind"], np.round(x, 2), np.array(d["s_true"]), mat)
    d["y"] = [float(v) for v in y]
    return d


def gen_config(rng, global_window=None):
    mat = L.material(rng)
    cfg = {"mat": mat}
    gw = rng.random() < 0.6 if global_window is None else global_window
    cfg["Qmin"] = round(rng.uniform(0.0, 0.6), 2) if gw and rng.random() < 0.7 else None
    cfg["Qmax"] = round(rng.uniform(0.7, 2.5), 2) if gw and rng.random() < 0.7 else None
    return cfg


def stog_kwargs(cfg, **extra):
    m = cfg["mat"]
    kw = {"NumberDensity": m["rho"], "<b_coh>^2": m["bcoh"], "<b_tot^2>": m["btot"]}
    merging = dict(cfg.get("Merging") or {})
    tr = {}
    if cfg.get("Qmin") is not None:
        tr["Qmin"] = cfg["Qmin"]
    if cfg.get("Qmax") is not None:
        tr["Qmax"] = cfg["Qmax"]
    if tr:
        merging["Transform"] = tr
    if cfg.get("opt_types"):      # option values as numpy scalars (what arithmetic on arrays hands over), exactly representable
        import numpy as _np

        def wrap(v):
            if isinstance(v, dict):
                return {k_: wrap(x_) for k_, x_ in v.items()}
            if cfg["opt_types"] == "int64" and float(v).is_integer():
                return _np.int64(v)
            return _np.float32(v)
        merging = {k_: (wrap(v_) if k_ != "Transform" else v_) for k_, v_ in merging.items()}
    if merging or cfg.get("Merging") is not None:
        kw["Merging"] = merging
    kw.update(extra)
    return kw


def info_of(d):
    data = [d["x"], d["y"]] + ([d["dy"]] if d["dy"] is not None else [])
    info = {"data": np.array(data, dtype=float), "ReciprocalFunction": KINDS[d["kind"]]}
    if d.get("omit_kind") and d["kind"] == 0:
        del info["ReciprocalFunction"]
    if d["Qmin"] is not None:
        info["Qmin"] = d["Qmin"]
    if d["Qmax"] is not None:
        info["Qmax"] = d["Qmax"]
    if d["Y"] is not None:
        info["Y"] = dict(d["Y"])
    if d["X"] is not None:
        info["X"] = dict(d["X"])
    for blk, key in d.get("by_call") or []:      # handed over as a call keyword instead (the block itself stays in the description)
        info[blk].pop(key, None)
    if d.get("by_call_noblock"):                 # ... or the description has no "Y" / "X" block at all and the keywords say everything
        info.pop("Y", None)
        info.pop("X", None)
    return info


_CALL_KW = {("Y", "Scale"): "yscale", ("Y", "Offset"): "yoffset", ("X", "Offset"): "xoffset"}


def call_kw_of(d, cfg=None):
    kw = _call_kw_of(d)
    if d.get("forward_cfg") and cfg is not None:      # extra keywords a caller forwards (its own settings dict): not add_dataset's business
        m = cfg["mat"]
        kw.update({"NumberDensity": m["rho"], "<b_coh>^2": m["bcoh"], "<b_tot^2>": m["btot"], "RealSpaceFunction": "g(r)"})
    return kw


def _call_kw_of(d):
    """manipulations the caller gives as keywords of add_dataset rather than in the dataset description (the description wins where it
    has the entry; the keyword fills in what it leaves out)"""
    return {_CALL_KW[(blk, key)]: d[blk][key] for blk, key in d.get("by_call") or []}


def read_via_file(stog, info, d, cfg=None):
    """the dataset arrives through read_dataset: the columns are written to a text file (shortest round-tripping decimals, two header
    lines) in the default column order or in another one named by xcol / ycol / dycol; the description is the same"""
    import os
    import shutil
    import tempfile

    import common as C
    os.makedirs(C.SCRATCH, exist_ok=True)
    tmp = tempfile.mkdtemp(prefix="ds_", dir=C.SCRATCH)
    try:
        data = info.pop("data")
        x, y = data[0], data[1]
        dy = data[2] if len(data) == 3 else None
        name = os.path.join(tmp, "bank.dat")
        cols, kw = ([x, y] + ([dy] if dy is not None else []), {})
        if d["via_file"] == "cols":
            junk = [7.0 + j for j in range(len(x))]
            if dy is not None:
                cols, kw = [dy, junk, x, y], {"xcol": 2, "ycol": 3, "dycol": 0}
            else:
                cols, kw = [junk, y, x], {"xcol": 2, "ycol": 1, "dycol": 5}
        with open(name, "w") as fh:
            fh.write("%d\n# written by the harness\n" % len(x))
            for row in zip(*cols):
                fh.write(" ".join(repr(float(v)) for v in row) + "\n")
        info["Filename"] = name
        stog.read_dataset(info, **dict(kw, **call_kw_of(d, cfg)))
    finally:
        shutil.rmtree(tmp, ignore_errors=True)


def read_all_route(pystog, cfg, datasets, bad_at=None):
    """the same datasets handed over as the instance's file list and read in one go by read_all_data (text files, raw abscissae in
    full precision, default column order; the instance's settings forwarded as keywords the way a driver script does); returns the two
    storage arrays"""
    import os
    import shutil
    import tempfile

    import common as C
    os.makedirs(C.SCRATCH, exist_ok=True)
    tmp = tempfile.mkdtemp(prefix="all_", dir=C.SCRATCH)
    try:
        entries = []
        # one column layout for all files of the call: named columns when every bank has (or every bank lacks) an uncertainty column
        has_dy = [d["dy"] is not None for d in datasets]
        layout, rkw = "default", {}
        if sum(len(d["x"]) for d in datasets) % 2 == 0:
            if all(has_dy):
                layout, rkw = "dy junk x y", {"xcol": 2, "ycol": 3, "dycol": 0}
            elif not any(has_dy):
                layout, rkw = "junk y x", {"xcol": 2, "ycol": 1, "dycol": 5}
        for j, d in enumerate(datasets):
            info = info_of(d)
            data = info.pop("data")
            junk = np.arange(data.shape[1], dtype=float) + 7.0
            cols = {"default": list(data), "dy junk x y": [data[-1], junk, data[0], data[1]], "junk y x": [junk, data[1], data[0]]}[layout]
            name = os.path.join(tmp, "bank%d.dat" % j)
            with open(name, "w") as fh:
                fh.write("%d\n# written by the harness\n" % data.shape[1])
                for row in zip(*cols):
                    fh.write(" ".join(repr(float(v)) for v in row) + "\n")
            info["Filename"] = name
            entries.append(info)
        if bad_at is not None:
            # a file with a single column among them: read_dataset raises RuntimeError there; what was read before stays stored
            name = os.path.join(tmp, "broken.dat")
            with open(name, "w") as fh:
                fh.write("3\n# one column only\n0.1\n0.2\n0.3\n")
            entries.insert(bad_at, {"Filename": name, "ReciprocalFunction": "S(Q)"})
        kw = stog_kwargs(cfg)
        if len(datasets) % 2:
            stog = pystog.StoG(**dict(kw, Files=entries))
        else:
            stog = pystog.StoG(**kw)
            stog.files = []
            for e in entries[:-1]:
                stog.append_file(e)
            stog.extend_file_list(entries[-1:])
        if bad_at is None:
            stog.read_all_data(**rkw)
            return snap(stog)
        try:
            stog.read_all_data(**rkw)
            outcome = "returned"
        except RuntimeError:
            outcome = "RuntimeError"
        except Exception as ex:
            outcome = type(ex).__name__
        return dict(snap(stog), outcome=outcome)
    finally:
        shutil.rmtree(tmp, ignore_errors=True)


def snap(stog):
    r = np.asarray(stog.reciprocal_individuals, float)
    s = np.asarray(stog.sq_individuals, float)
    return {"recip": [r[0].tolist(), r[1].tolist(), r[2].tolist()], "sq": [s[0].tolist(), s[1].tolist(), s[2].tolist()],
            "xmin": float(stog.xmin), "xmax": float(stog.xmax)}


def run_sequence(pystog, cfg, datasets):
    """add the datasets one by one; return the snapshots before/after each"""
    first = cfg.get("Merging_first")
    ctor = cfg.get("win_ctor")
    cfg_c = cfg if ctor is None else dict(cfg, Qmin=ctor.get("Qmin"), Qmax=ctor.get("Qmax"))
    stog = pystog.StoG(**stog_kwargs(dict(cfg_c, Merging=first) if first is not None else cfg_c))
    if ctor is not None:         # the global window is changed through the attributes after construction: the attributes are what counts
        stog.qmin, stog.qmax = cfg.get("Qmin"), cfg.get("Qmax")
    if first is not None:        # the options are assigned again: only the last assignment counts
        stog.merged_opts = dict(cfg.get("Merging") or {})
    snaps = [snap(stog)]
    cur = dict(cfg["mat"])
    infos = []
    for d in datasets:
        for k_, v_ in (d.get("set_before") or {}).items():   # the instance's scattering lengths may change between datasets
            setattr(stog, {"bcoh": "bcoh_sqrd", "btot": "btot_sqrd"}[k_], v_)
            cur[k_] = v_
        rej = None
        rej_pair = None
        if d.get("rejected_before"):
            # an entry with an unknown function name is offered first; the caller catches the error and carries on
            before = snap(stog)
            bad = info_of(d)
            bad["ReciprocalFunction"] = d["rejected_before"]
            try:
                stog.add_dataset(bad)
                rej = "accepted"
            except ValueError:
                after = snap(stog)      # (the overall-range bookkeeping xmin/xmax is not part of the stored data)
                rej_pair = (before, after)
                rej = "changed" if (after["recip"], after["sq"]) != (before["recip"], before["sq"]) else "clean"
            except Exception as e_:
                rej = "raised %s" % type(e_).__name__
        if d.get("reuse_info_of") is not None and d["reuse_info_of"] < len(infos):
            # a template dict used again for other data (a loop over banks; a Files entry re-read): only its "data" is replaced
            info = infos[d["reuse_info_of"]]
            info["data"] = info_of(d)["data"]
        else:
            info = info_of(d)
        infos.append(info)
        if d.get("via_file") and d.get("reuse_info_of") is None:
            read_via_file(stog, info, d, cfg)
        else:
            stog.add_dataset(info, **call_kw_of(d, cfg))
        sn = snap(stog)
        sn["mat"] = dict(cur)
        if rej is not None:
            sn["rejected"] = rej
        if rej_pair is not None:
            sn["rejected_pre"], sn["rejected_post"] = rej_pair
        snaps.append(sn)
    return stog, snaps


def add_to_coq(cfg, d, pre, post):
    m = post.get("mat") or cfg["mat"]
    Y, X = d["Y"], d["X"]
    fl = [d["x"], d["y"], d["dy"] or []] + pre["recip"] + pre["sq"]
    sc = [d["Qmin"] or 0.0, d["Qmax"] or 0.0, (Y or {}).get("Scale", 0.0), (Y or {}).get("Offset", 0.0), (X or {}).get("Offset", 0.0),
          cfg["Qmin"] or 0.0, cfg["Qmax"] or 0.0, m["rho"], m["bcoh"], m["btot"], pre["xmin"], pre["xmax"]]
    zs = [0 if d["dy"] is None else 1, 0 if d["Qmin"] is None else 1, 0 if d["Qmax"] is None else 1,
          0 if Y is None else 1, 1 if (Y is not None and "Scale" in Y) else 0, 1 if (Y is not None and "Offset" in Y) else 0,
          0 if X is None else 1, 1 if (X is not None and "Offset" in X) else 0, d["kind"],
          0 if cfg["Qmin"] is None else 1, 0 if cfg["Qmax"] is None else 1]
    out = post["recip"] + post["sq"] + [[post["xmin"], post["xmax"]]]
    return ("chk_add", (fl, sc, zs, out))


def expected_rows(cfg, d):
    """the property's own description of what one dataset contributes (numpy, independent of the model)"""
    m = cfg["mat"]
    x = np.round(np.array(d["x"], float), 2)
    y = np.array(d["y"], float)
    e = np.zeros_like(y) if d["dy"] is None else np.array(d["dy"], float)
    lo = x.min() if d["Qmin"] is None else d["Qmin"]
    hi = x.max() if d["Qmax"] is None else d["Qmax"]
    keep = (x >= lo) & (x <= hi)
    x, y, e = x[keep], y[keep], e[keep]
    ys = (d["Y"] or {}).get("Scale", 1.0)
    yo = (d["Y"] or {}).get("Offset", 0.0)
    xo = (d["X"] or {}).get("Offset", 0.0)
    y = y * ys + yo
    e = e * ys
    x = np.round(x + xo, 2) if (d["Y"] is not None or d["X"] is not None) else x
    keep = np.ones_like(x, bool)
    if cfg["Qmin"] is not None:
        keep &= x >= cfg["Qmin"]
    if cfg["Qmax"] is not None:
        keep &= x <= cfg["Qmax"]
    x, y, e = x[keep], y[keep], e[keep]
    with np.errstate(all="ignore"):
        pos = x > 0
        xs = np.where(pos, x, 1.0)
        s = np.where(pos, L.to_base(0, d["kind"], xs, y, m), 1.0 if d["kind"] != 0 else y)
        ds = np.where(pos, e * L.deriv(0, d["kind"], 0, xs, m), 0.0 if d["kind"] != 0 else e)
        if d["kind"] == 0:
            s, ds = y, e
    return x, y, e, s, ds
