"""C16 -- library calls are pure: inputs untouched, results reproducible, dtype-blind."""
import itertools

import numpy as np

from . import convlib as L
from . import ftlib as F

ID = "C16"
CHECKER = "chk_dtype"
THEOREMS = ['C16_no_truncation_conversions', 'C16_no_truncation_transforms', 'C16_transform_outputs_float', 'C16_conversion_values_float', 'C16_original_safe_divide_truncates', 'C16_original_transform_truncates', 'C16_model_is_a_function']
RULE = ("every public method of Converter (18), Transformer (fourier_transform, apply_cropping, 24 named), FourierFilter (12), Pre_Proc.rebin "
        "under every int64/float64 assignment of its array arguments (exhaustive) on integer-valued data, plus random-valued calls; each call "
        "is made twice with poisoned heap blocks freed in between and the argument arrays are fingerprinted before and after; "
        "non-trivial = some output non-zero; distinct by (method, dtype assignment, data)")
CONV = ["F_to_S", "F_to_FK", "F_to_DCS", "S_to_F", "S_to_FK", "S_to_DCS", "FK_to_F", "FK_to_S", "FK_to_DCS",
        "DCS_to_F", "DCS_to_S", "DCS_to_FK", "G_to_GK", "G_to_g", "GK_to_G", "GK_to_g", "g_to_G", "g_to_GK"]
MAT = {"rho": 0.5, "bcoh": 2.0, "btot": 3.0}


def generate(rng, tier):
    cases = []
    datasets = [([0, 1, 2, 3, 5], [1, 2, 3, 5, 4], [1, 0, 2, 1, 3]), ([-2, -1, 0, 1, 3], [2, 1, 3, 4, 5], [1, 2, 0, 1, 1])]
    if tier == "thorough":
        for _ in range(3):
            n = rng.randint(2, 9)
            x = sorted(rng.sample(range(0, 30), n))
            datasets.append((x, [rng.randint(-6, 9) for _ in range(n)], [rng.randint(0, 4) for _ in range(n)]))
    for x, y, dy in datasets:
        for mi, name in enumerate(CONV):
            for xd, yd, dd in itertools.product((0, 1), (0, 1), (0, 1, 2)):
                cases.append({"group": "conv", "method": mi, "name": name, "x": x, "y": y, "dy": dy, "dt": [xd, yd, dd, 1],
                              "desc": {"group": "conv", "method": name, "dtypes": "%d%d%d" % (xd, yd, dd)}})
        if x[0] == 0:
            # a dead bin in the abscissae (NaN): whatever the convention there, the result may not depend on what the heap held
            xn = ([0.5, float("nan")] + [2.0 + 1.5 * k_ for k_ in range(len(y))])[:len(y)]
            for mi, name in enumerate(CONV):
                for dd in (0, 2):
                    cases.append({"group": "conv", "method": mi, "name": name, "x": xn, "y": y, "dy": dy, "dt": [1, 1, dd, 1],
                                  "desc": {"group": "conv", "method": name, "dtypes": "11%d" % dd, "nan_abscissa": True}})
        xout = [0, 1, 2, 4]
        for mi, name in ((18, "fourier_transform"), (19, "F_to_G")):
            for xd, yd, od, dd in itertools.product((0, 1), (0, 1), (0, 1), (0, 1, 2)):
                for lorch in (False, True):
                    cases.append({"group": "ft", "method": mi, "name": name, "x": x, "y": y, "dy": dy, "xout": xout, "dt": [xd, yd, dd, od],
                                  "lorch": lorch, "desc": {"group": "ft", "method": name, "dtypes": "%d%d%d%d" % (xd, yd, dd, od), "lorch": lorch}})
                    if dd == 0:   # with the omitted-range correction (Qmin > 0, an output point exactly at 0)
                        cases.append({"group": "ft", "method": mi, "name": name, "x": [v + 1 for v in x], "y": y, "dy": dy, "xout": xout,
                                      "dt": [xd, yd, dd, od], "lorch": lorch, "omitted": True,
                                      "desc": {"group": "ft", "method": name, "dtypes": "%d%d%d%d" % (xd, yd, dd, od), "lorch": lorch, "omitted": True}})
        # the output grid as a 2-D column (n, 1): the caller's array keeps its shape (and everything else)
        for mi, name in ((18, "fourier_transform"), (19, "F_to_G")):
            for lorch in (False, True):
                cases.append({"group": "ft", "method": mi, "name": name, "x": [v + 1 for v in x], "y": y, "dy": dy, "xout": xout, "dt": [1, 1, 2, 1],
                              "lorch": lorch, "xout_col": True,
                              "desc": {"group": "ft", "method": name, "dtypes": "1121", "lorch": lorch, "output_grid": "column (n, 1)"}})
        for d in (0, 1):
            nin, nout = (L.RN, L.GN) if d == 0 else (L.GN, L.RN)
            for a, b in itertools.product(nin, nout):
                for xd, yd, od in itertools.product((0, 1), (0, 1), (0, 1)):
                    cases.append({"group": "named", "method": 20, "name": "%s_to_%s" % (a, b), "x": [v + 1 for v in x], "y": y, "dy": dy,
                                  "xout": [1, 2, 4], "dt": [xd, yd, 0, od],
                                  "desc": {"group": "named", "method": "%s_to_%s" % (a, b), "dtypes": "%d%d%d" % (xd, yd, od)}})
        for a, b in itertools.product(L.GN, L.RN):
            for rd, gd, qd, yd in itertools.product((0, 1), (0, 1), (0, 1), (0, 1)):
                if tier == "quick" and (rd + gd + qd + yd) not in (0, 2, 4):
                    continue
                cases.append({"group": "filter", "method": 21, "name": "%s_using_%s" % (a, b), "x": [0, 1, 2, 3, 4], "y": [0, 0, 2, 1, 1],
                              "q": [1, 2, 3], "fq": [1, 3, 2], "dy": None, "dt": [rd, gd, qd, yd],
                              "desc": {"group": "filter", "method": "%s_using_%s" % (a, b), "dtypes": "%d%d%d%d" % (rd, gd, qd, yd)}})
        for xd, yd in itertools.product((0, 1), (0, 1)):
            cases.append({"group": "rebin", "method": 22, "name": "rebin", "x": [0, 1, 1, 2, 3, 4], "y": [3, 1, 2, 2, 5, 4], "dy": None, "dt": [xd, yd, 0, 1],
                          "desc": {"group": "rebin", "method": "rebin", "dtypes": "%d%d" % (xd, yd)}})
        for k in range(3 if tier == "quick" else 12):
            n = rng.choice([5, 9, 30])
            cases.append({"group": "sequence", "method": 24, "name": "reuse of one object", "x": [], "y": [], "dy": None, "dt": [1, 1, 0, 1],
                          "n": n, "seed": rng.randint(0, 10 ** 6), "which": k % 3,
                          "desc": {"group": "sequence", "method": ["Transformer", "FourierFilter", "Converter"][k % 3], "dtypes": "11"}})
        for xd, yd, dd in itertools.product((0, 1), (0, 1), (0, 1, 2)):
            cases.append({"group": "crop", "method": 23, "name": "apply_cropping", "x": x, "y": y, "dy": dy, "dt": [xd, yd, dd, 1],
                          "desc": {"group": "crop", "method": "apply_cropping", "dtypes": "%d%d%d" % (xd, yd, dd)}})
    return cases


REBIN_WINDOWS = [(0, 1, 3), (1, 1, 4), (0, 2, 4), (1, 1, 3), (0, 1, 2), (1, 2, 3), (2, 1, 4), (0, 3, 3), (1, 3, 4), (2, 2, 4), (0, 2, 2), (3, 1, 4),
                 (0, 4, 4), (1, 1, 2), (2, 1, 3), (1, 2, 4)]
REBIN_COUNT = [0]
UNSIGNED = [False]
ARRAY_CONSTS = [False]
SINGLE = [False]


def arr(v, d):
    if d == 0 and UNSIGNED[0]:
        return np.array(v, dtype=np.uint64 if len(v) % 2 else np.uint32)
    if d == 32:
        return np.array(v, dtype=np.float32)
    return np.array(v, dtype=np.int64 if d == 0 else np.float64)


CONSTS_USED = [None]


def consts():
    """the material constants as Python floats or (what a file reader hands over) as 0-d numpy arrays"""
    kw = L.kwargs_of(MAT)
    if ARRAY_CONSTS[0]:
        kw = {k: np.array(v) for k, v in kw.items()}
    return kw


def with_zeros(case):
    """the same call on non-negative integer data that contain zeros (what unsigned counts look like)"""
    c = dict(case)
    for k in ("y", "dy", "fq"):
        if k in c and c[k] is not None:
            v = [abs(int(t)) for t in c[k]]
            v[0] = 0
            if len(v) > 3:
                v[3] = 0
            c[k] = v
    return c


def build_call(pystog, case, force_float=False):
    """returns (callable, list of argument arrays)"""
    dt = [1, 1, 2 if case["dt"][2] else 0, 1] if force_float else case["dt"]
    if SINGLE[0]:       # the data (and their uncertainties) in single precision, abscissae in double
        dt = [32 if case["group"] == "ft" else 1, 32, 33 if case["dt"][2] else 0, 1]     # (the core transform: the input grid too)
    kw = consts()
    CONSTS_USED[:] = [kw]
    g = case["group"]
    if g == "conv":
        x, y = arr(case["x"], dt[0]), arr(case["y"], dt[1])
        d = None if dt[2] == 0 else arr(case["dy"], dt[2] - 1)
        f = getattr(pystog.Converter(), case["name"])
        return (lambda: f(x, y, d, **kw)), [x, y] + ([d] if d is not None else [])
    if g == "ft":
        x, y, xo = arr(case["x"], dt[0]), arr(case["y"], dt[1]), arr(case["xout"], dt[3])
        if case.get("xout_col"):
            xo = xo.reshape(-1, 1)
        d = None if dt[2] == 0 else arr(case["dy"], dt[2] - 1)
        tr = pystog.Transformer()
        k2 = {"lorch": True} if case["lorch"] else {}
        if case.get("omitted"):
            k2["OmittedXrangeCorrection"] = True
        if case["name"] == "fourier_transform":
            return (lambda: tr.fourier_transform(x, y, xo, dy_in=d, **k2)[1:]), [x, y, xo] + ([d] if d is not None else [])
        return (lambda: tr.F_to_G(x, y, xo, d, **k2)[1:]), [x, y, xo] + ([d] if d is not None else [])
    if g == "named":
        x, y, xo = arr(case["x"], dt[0]), arr(case["y"], dt[1]), arr(case["xout"], dt[3])
        f = getattr(pystog.Transformer(), case["name"])
        return (lambda: f(x, y, xo, **kw)[1:]), [x, y, xo]
    if g == "filter":
        dts = [1, 1, 1, 1] if force_float else case["dt"]
        r, gr, q, fq = arr(case["x"], dts[0]), arr(case["y"], dts[1]), arr(case["q"], dts[2]), arr(case["fq"], dts[3])
        f = getattr(pystog.FourierFilter(), case["name"])
        return (lambda: [o for i, o in enumerate(f(r, gr, q, fq, 2.5, **kw)) if i in (1, 3, 5, 6, 7, 8)]), [r, gr, q, fq]
    if g == "rebin":
        x, y = arr(case["x"], dt[0]), arr(case["y"], dt[1])
        return (lambda: pystog.Pre_Proc.rebin(x, y, 0, 1, 4)), [x, y]
    x, y = arr(case["x"], dt[0]), arr(case["y"], dt[1])
    d = None if dt[2] == 0 else arr(case["dy"], dt[2] - 1)
    tr = pystog.Transformer()
    return (lambda: tr.apply_cropping(x, y, 1, 3, dy=d)), [x, y] + ([d] if d is not None else [])


def kinds(out):
    return ["none" if o is None else np.asarray(o).dtype.kind for o in out]


def sequence_calls(pystog, case):
    """a list of closures on ONE object and, for each, the same call on a fresh object"""
    import random

    r = random.Random(case["seed"])
    n = case["n"]
    lo, hi = 0.5, 20.0
    # (two of the grids are stored in descending order: what an object does with such a grid may not depend on whether it has seen one before)
    grids = [np.linspace(lo, hi, n), np.geomspace(lo, hi, n)[::-1].copy(), np.sort(np.concatenate(([lo, hi], np.array([r.uniform(lo, hi) for _ in range(n - 2)])))),
             np.linspace(hi, lo, n), np.linspace(lo, hi, n)]
    outs = [np.linspace(0.1, 5.0, 7), np.sort(np.concatenate(([0.1, 5.0], np.array([r.uniform(0.1, 5.0) for _ in range(5)])))), np.linspace(0.1, 5.0, 7)]
    kw = L.kwargs_of(MAT)
    calls = []
    for i, g in enumerate(grids):
        y = np.cos(g * 1.3) + 1.0
        xo = outs[i % len(outs)]
        if case["which"] == 0:
            calls.append(lambda o, g=g, y=y, xo=xo: o.S_to_g(g, y, xo, **kw)[1:])
            make = pystog.Transformer
        elif case["which"] == 1:
            rr = np.linspace(0.0, 4.0, 9) if i % 2 == 0 else np.array([0.0, 0.3, 0.9, 1.4, 2.0, 2.2, 3.0, 3.9, 4.0])
            gr = np.sin(rr) + 0.2
            calls.append(lambda o, g=g, y=y, rr=rr, gr=gr: [v for j, v in enumerate(o.g_using_S(rr, gr, g, y, 1.5, **kw)) if j in (1, 3, 5)])
            make = pystog.FourierFilter
        else:
            calls.append(lambda o, g=g, y=y: o.S_to_DCS(g, y, None, **kw))
            make = pystog.Converter
    return make, calls


def run_sequence(pystog, case):
    make, calls = sequence_calls(pystog, case)
    shared = make()
    ok = True
    for c in calls:
        a = [np.asarray(v) for v in c(shared)]
        b = [np.asarray(v) for v in c(make())]
        ok = ok and all(u.tobytes() == v.tobytes() for u, v in zip(a, b))
    return {"error": None, "kinds": ["f", "f"], "mutated": [], "reproducible": bool(ok), "same_as_float": True, "out": []}


def run_impl(pystog, case):
    if case["group"] == "sequence":
        return run_sequence(pystog, case)
    call, args = build_call(pystog, case)
    before = [(a.tobytes(), a.dtype.str, a.shape, a.strides) for a in args]
    if case.get("xout_col"):
        # a 2-D column as output grid: whether an implementation accepts it is not this property's business -- only that it leaves
        # the caller's arrays (contents, type, shape) alone and, where it answers, answers reproducibly
        try:
            call()
        except Exception:
            mutated = [i for i, (a, b) in enumerate(zip(args, before)) if (a.tobytes(), a.dtype.str, a.shape, a.strides) != b]
            return {"error": None, "history": None, "kinds": ["f", "f"], "mutated": mutated, "reproducible": True, "same_as_float": True, "out": [],
                    "not_accepted": True}
    try:
        out = [None if o is None else np.asarray(o) for o in call()]
        err = None
    except Exception as e:  # recorded: a dtype-dependent exception is a dtype dependence
        out, err = [], "%s: %s" % (type(e).__name__, str(e)[:200])
    mutated = [i for i, (a, b) in enumerate(zip(args, before)) if (a.tobytes(), a.dtype.str, a.shape, a.strides) != b]
    rep = True
    if err is None:
        for fill in (float("nan"), 3.0):
            F.poison({len(a) for a in args} | {len(o) for o in out if o is not None and o.ndim}, fill)
            with F.poisoned_empty(fill):
                out2 = [None if o is None else np.asarray(o) for o in call()]
            rep = rep and all((a is None and b is None) or (a is not None and b is not None and a.dtype == b.dtype and a.tobytes() == b.tobytes())
                              for a, b in zip(out, out2))
    if case["group"] == "rebin" and err is None:
        # the same call after an earlier call whose window has the same values in another number type: same result, same types
        w1, w2 = REBIN_WINDOWS[(2 * REBIN_COUNT[0]) % len(REBIN_WINDOWS)], REBIN_WINDOWS[(2 * REBIN_COUNT[0] + 1) % len(REBIN_WINDOWS)]
        REBIN_COUNT[0] += 1
        xr, yr = np.array(case["x"], float), np.array(case["y"], float)
        try:
            a1 = [np.asarray(o) for o in pystog.Pre_Proc.rebin(xr, yr, *w1)]
            pystog.Pre_Proc.rebin(xr, yr, *[float(v) for v in w2])
            a2 = [np.asarray(o) for o in pystog.Pre_Proc.rebin(xr, yr, *w2)]
            if [o.dtype.kind for o in a1] != [o.dtype.kind for o in a2]:
                rep = False
                hist = "rebin with the integer window %r returns arrays of kinds %r after a call with the same window as floats, %r without such a call (window %r)" % (
                    w2, [o.dtype.kind for o in a2], [o.dtype.kind for o in a1], w1)
            else:
                hist = None
        except Exception as e:
            hist = "rebin history sequence raised %s: %s" % (type(e).__name__, str(e)[:120])
    else:
        hist = None
    fcall, _ = build_call(pystog, case, force_float=True)
    ref = [None if o is None else np.asarray(o, float) for o in fcall()]
    same = err is None and len(ref) == len(out) and all(
        (a is None and b is None) or (a is not None and b is not None and np.array_equal(np.asarray(a, float), b, equal_nan=True))
        for a, b in zip(out, ref))
    res = {"error": err, "history": hist, "kinds": kinds(out), "mutated": mutated, "reproducible": bool(rep), "same_as_float": bool(same),
           "out": [None if o is None else np.asarray(o, float).tolist() for o in out][:2]}
    # the material constants given as 0-d numpy arrays: same result, and the caller's arrays are not touched
    if case["group"] in ("conv", "named", "filter") and err is None:
        try:
            ARRAY_CONSTS[0] = True
            acall, _ = build_call(pystog, case)
            kwa = CONSTS_USED[0]
            before_c = {k: float(v) for k, v in kwa.items()}
            try:
                ao = [None if o is None else np.asarray(o, float) for o in acall()]
                aerr = None
            except Exception as e:
                ao, aerr = [], "%s: %s" % (type(e).__name__, str(e)[:160])
            changed = [k for k, v in kwa.items() if float(v) != before_c[k]]
        finally:
            ARRAY_CONSTS[0] = False
        res["consts_error"] = aerr
        res["consts_changed"] = changed
        res["consts_same"] = bool(aerr is None and len(ao) == len(out) and all(
            (a is None and b is None) or (a is not None and b is not None and np.array_equal(a, np.asarray(b, float), equal_nan=True)) for a, b in zip(ao, out)))
    # single-precision data with exactly representable values on double-precision abscissae: the same numbers, the same result
    if case["group"] in ("conv", "named") or (case["group"] == "ft" and not case.get("lorch") and not case.get("omitted")):
        try:
            SINGLE[0] = True
            scall, _ = build_call(pystog, case)
            try:
                so = [None if o is None else np.asarray(o, float) for o in scall()]
                serr_ = None
            except Exception as e:
                so, serr_ = [], "%s: %s" % (type(e).__name__, str(e)[:160])
        finally:
            SINGLE[0] = False
        res["single_error"] = serr_
        res["single_same"] = bool(serr_ is None and len(so) == len(ref) and all(
            (a is None and b is None) or (a is not None and b is not None and np.array_equal(a, b, equal_nan=True)) for a, b in zip(so, ref)))
        if not res["single_same"] and serr_ is None:
            res["single_out"] = [[None if o is None else o.tolist() for o in so][:2], [None if o is None else o.tolist() for o in ref][:2]]
    # unsigned integer arrays (counts) with zeros in them: the same values as floating arrays must give the same result
    if 0 in case["dt"] and case["group"] in ("conv", "ft", "named", "filter", "crop") and all(v >= 0 for v in case["x"]):
        cz = with_zeros(case)
        try:
            UNSIGNED[0] = True
            ucall, _ = build_call(pystog, cz)
            try:
                uo = [None if o is None else np.asarray(o, float) for o in ucall()]
                uerr = None
            except Exception as e:
                uo, uerr = [], "%s: %s" % (type(e).__name__, str(e)[:160])
        finally:
            UNSIGNED[0] = False
        rcall, _ = build_call(pystog, cz, force_float=True)
        ur = [None if o is None else np.asarray(o, float) for o in rcall()]
        res["unsigned_error"] = uerr
        res["unsigned_same"] = bool(uerr is None and len(uo) == len(ur) and all(
            (a is None and b is None) or (a is not None and b is not None and np.array_equal(a, b, equal_nan=True)) for a, b in zip(uo, ur)))
        if not res["unsigned_same"] and uerr is None:
            res["unsigned_out"] = [[None if o is None else o.tolist() for o in uo][:2], [None if o is None else o.tolist() for o in ur][:2]]
    return res


def to_coq(case, res):
    if "exception" in res:
        return None
    k = res["kinds"] + ["f", "f"]
    vk = 0 if (res["error"] or k[0] != "f") else 1
    ek = 0 if (res["error"] or k[1] != "f") else 1
    if case["group"] == "rebin":    # (grid, values): the grid keeps the type of xmin/step; the values are what matters
        vk, ek = (0 if (res["error"] or k[1] != "f") else 1), 1
    if case["group"] == "crop":     # masks only: dtypes pass through, nothing to predict beyond equality of values
        vk = ek = 1
    return ([], [], [case["method"] if case["group"] != "crop" else 30, case["dt"][0], case["dt"][1], case["dt"][2], case["dt"][3],
                     vk, ek, 1 if res["same_as_float"] else 0], [])


def nontrivial(case, res):
    return "exception" not in res and not res["error"]


def oracle(pystog, case, res):
    """no argument array is modified (bytes and dtype before/after); two calls with poisoned heap blocks freed in between are
    bit-identical; integer and floating inputs with equal values give equal results (no truncation, no dtype-dependent exception)"""
    if "exception" in res:
        return "harness could not run the case: %s %s" % (res["exception"], res["message"])
    name = "%s with dtypes %s" % (case["name"], case["desc"]["dtypes"])
    if res["mutated"]:
        return "%s modified its argument #%r (contents, type, shape or strides)" % (name, res["mutated"])
    if res.get("history"):
        return res["history"]
    if res["error"]:
        return "%s raised %s for integer input" % (name, res["error"])
    if not res["reproducible"] and case["group"] == "sequence":
        return "%s: the same call gives a different result on an object that served other calls before than on a fresh %s" % (case["name"], case["desc"]["method"])
    if not res["reproducible"]:
        return "%s is not reproducible (differs after freed heap blocks were refilled)" % name
    if not res["same_as_float"]:
        return "%s gives a different result for integer than for equal floating input (silent truncation): %r" % (name, res["out"])
    if res.get("consts_error"):
        return "%s raised %s when the material constants are given as 0-d numpy arrays" % (name, res["consts_error"])
    if res.get("consts_changed"):
        return "%s modified the material constant(s) %r it was given (0-d numpy arrays)" % (name, res["consts_changed"])
    if res.get("consts_same") is False:
        return "%s gives a different result when the material constants are 0-d numpy arrays instead of floats" % name
    if res.get("single_error"):
        return "%s raised %s for single-precision data" % (name, res["single_error"])
    if res.get("single_same") is False:
        return "%s gives a different result for single-precision data than for the same values in double precision: %r" % (name, res.get("single_out"))
    if res.get("unsigned_error"):
        return "%s raised %s for unsigned integer input" % (name, res["unsigned_error"])
    if res.get("unsigned_same") is False:
        return "%s gives a different result for unsigned integer arrays than for floating arrays with the same values: %r" % (name, res.get("unsigned_out"))
    return None
