"""C11 -- dataset ingestion crops, rescales and converts each input to S(Q) faithfully."""
import numpy as np

from . import stoglib as SL

ID = "C11"
CHECKER = "chk_add"
THEOREMS = ['C11_ingest_rows_spec', 'C11_add_dataset_appends', 'C11_history_independent', 'C11_masters_untouched', 'C11_sq_row_is_conversion', 'C11_sq_rows_pointwise', 'C11_sq_row_formula', 'C11_nothing_outside_global_window', 'C11_stored_q_on_grid', 'C11_nothing_inside_both_windows_lost', 'C11_arrays_aligned', 'C11g_add_dataset_appends', 'C11g_history_independent', 'C11g_masters_untouched', 'C11g_sq_row_is_conversion', 'C11g_history_independent_binary64', 'C11e_reject_keeps_arrays', 'C11e_rejected_entries_leave_no_rows', 'C11e_rejected_entries_keep_masters', 'C11e_aligned_with_rejected_entries', 'C11k_keyword_call_is_effective_description', 'C11k_no_keywords', 'C11k_description_entry_wins', 'C11k_keyword_fills_missing_entry', 'C11k_keywords_alone', 'C11k_original_agrees_with_block', 'C11k_original_drops_keywords_refuted', 'C11r_three_columns', 'C11r_two_columns', 'C11r_named_columns', 'C11r_no_uncertainty_column', 'C11r_too_few_columns_rejected', 'C11r_layout_dy_junk_x_y', 'C11r_layout_junk_y_x', 'C11r_read_dataset_is_add_dataset', 'C11r_forwarded_keywords', 'C11r_two_columns_is_no_uncertainty', 'C11a_read_all_is_add_dataset_in_order', 'C11a_no_files_rejected', 'C11a_stops_at_first_unreadable_file']
RULE = ("sequences of 1-5 datasets of all four kinds with per-dataset Qmin/Qmax (on / off data points, outside the data), Y scale / offset, "
        "Q offsets (multiples of 0.01 and not), abscissae exact / jittered / half-way between 0.01 steps / unsorted, global Qmin/Qmax windows; "
        "every add_dataset step is one correspondence case from the implementation's own pre-state; non-trivial = the dataset stores at "
        "least one row; distinct by input hash")


def generate(rng, tier):
    n = 40 if tier == "quick" else 300
    cases = []
    # a fixed sequence: Keen F(Q) dataset, then <b_tot^2> is reassigned, then a DCS(Q) dataset
    cfg0 = {"mat": {"rho": 0.05, "bcoh": 2.5, "btot": 1.25}, "Qmin": None, "Qmax": None}

    def plain(kind, x):
        return {"x": x, "kind": kind, "style": "exact", "s_true": [1.0 + 0.3 * (-1) ** j for j in range(len(x))], "dy": [0.01] * len(x),
                "Qmin": None, "Qmax": None, "Y": None, "X": None}
    def plain_done(d, mat):
        return SL.finish_dataset(dict(d), mat)
    d_a = plain(2, [0.3, 0.4, 0.5, 0.6])
    d_b = plain(3, [0.3, 0.45, 0.6, 0.75])
    d_b["set_before"] = {"btot": 8.5}
    d_b["forward_cfg"] = True      # the caller passes the settings it built the instance with along as keywords (they are not add_dataset's business)
    SL.finish_dataset(d_a, cfg0["mat"])
    SL.finish_dataset(d_b, dict(cfg0["mat"], btot=8.5))
    cases.append({"cfg": cfg0, "datasets": [d_a, d_b],
                  "desc": {"n_datasets": 2, "edge_on_shifted_point": False, "attrs_changed_between": True, "global_qmin": False,
                           "global_qmax": False, "any_xoffset": False, "kinds": "23"}})
    # fixed: a dead bin (NaN sample) in a dataset of each kind: it is stored as it is, and so is its S(Q) conversion
    for kind in range(4):
        d_n = plain(kind, [0.2, 0.3, 0.4, 0.5, 0.6])
        SL.finish_dataset(d_n, cfg0["mat"])
        d_n["y"][2] = float("nan")
        cases.append({"cfg": cfg0, "datasets": [plain_done(d_a, cfg0["mat"]), d_n],
                      "desc": {"n_datasets": 2, "edge_on_shifted_point": False, "attrs_changed_between": False, "global_qmin": False,
                               "global_qmax": False, "any_xoffset": False, "kinds": "2%d" % kind, "nan_sample": True}})
    for i in range(n):
        cfg = SL.gen_config(rng)
        k = rng.choice([1, 2, 3, rng.randint(1, 5)])
        ds = [SL.finish_dataset(SL.gen_dataset(rng, tier), cfg["mat"]) for _ in range(k)]
        if i % 3 == 1:      # a global window edge exactly on a shifted grid value (0.1 + 0.2 vs 0.3)
            d0 = rng.choice(ds)
            off = rng.choice([0.1, 0.2, 0.3, 0.7])
            d0["X"] = {"Offset": off}
            xs = sorted(set(round(v, 2) for v in d0["x"]))
            edge = round(rng.choice(xs) + off, 2)
            if rng.random() < 0.5:
                cfg["Qmax"], cfg["Qmin"] = edge, None
            else:
                cfg["Qmin"], cfg["Qmax"] = edge, None
            d0["Qmin"] = d0["Qmax"] = None
        if i % 6 == 4:             # the info dict of the first dataset (no Qmin / Qmax in it) is used again for data reaching further out
            d0 = ds[0]
            d0["Qmin"] = d0["Qmax"] = None
            SL.finish_dataset(d0, cfg["mat"])
            d2 = dict(d0, x=[round(v + 0.05 * (j + 1) + (max(d0["x"]) - min(d0["x"])) * 0.5, 2) for j, v in enumerate(sorted(d0["x"]))],
                      style="exact", reuse_info_of=0)
            d2["s_true"] = [1.0 + 0.1 * (-1) ** j for j in range(len(d2["x"]))]
            d2["dy"] = None if d0["dy"] is None else [0.01] * len(d2["x"])
            ds.append(SL.finish_dataset(d2, cfg["mat"]))
            k = len(ds)
        if i % 7 == 3:             # the instance is built with one global window, then qmin / qmax are assigned other values
            cfg["win_ctor"] = {"Qmin": [0.45, None, 0.2][i % 3], "Qmax": [1.1, 0.9, None][i % 3]}
            if cfg["Qmin"] is None and cfg["Qmax"] is None:
                cfg["Qmin"] = 0.12
        if i % 7 == 5 and not any(d.get("reuse_info_of") is not None for d in ds):   # scale / offsets handed to add_dataset as call keywords; the description has the block but not the entry
            d0 = ds[i % len(ds)]
            d0["Y"] = {"Scale": 1.5 + 0.25 * (i % 3), "Offset": 0.1 * (1 + i % 2)}
            d0["X"] = {"Offset": [0.1, -0.2, 0.3][i % 3]}
            d0["by_call"] = [[("Y", "Scale")], [("Y", "Offset"), ("X", "Offset")], [("Y", "Scale"), ("Y", "Offset"), ("X", "Offset")], [("X", "Offset")]][(i // 7) % 4]
            d0["by_call_noblock"] = (i // 7) % 4 == 2      # all three by keyword and no "Y" / "X" block in the description
        if i % 5 == 2:             # an entry with a misspelt function name is rejected just before one of the datasets is added
            rng.choice(ds)["rejected_before"] = rng.choice(["F(Q)", "S(q)", "DCS", "FK(Q) "])
        if i % 4 == 2 and k > 1:   # the scattering lengths are changed between datasets
            for d in ds[1:]:
                if rng.random() < 0.7:
                    d["set_before"] = {rng.choice(["btot", "bcoh"]): rng.logu(0.1, 50.0)}
            cur = dict(cfg["mat"])
            for d in ds:
                cur.update(d.get("set_before") or {})
                SL.finish_dataset(d, cur)
                d["forward_cfg"] = bool(d.get("set_before"))
        if i % 4 == 0 and i > 0:   # the datasets arrive through read_dataset (a text file each, default or named column order)
            for j, d in enumerate(ds):
                if d.get("reuse_info_of") is None and not d.get("rejected_before") and all(v == v and abs(v) != float("inf") for v in d["y"]):
                    d["via_file"] = ["default", "cols"][(i // 4 + j) % 2]
        cases.append({"cfg": cfg, "datasets": ds,
                      "desc": {"n_datasets": k, "edge_on_shifted_point": i % 3 == 1, "through_read_dataset": any(d.get("via_file") for d in ds), "attrs_changed_between": any(d.get("set_before") for d in ds),
                               "global_qmin": cfg["Qmin"] is not None, "global_qmax": cfg["Qmax"] is not None,
                               "any_xoffset": any(d["X"] is not None for d in ds), "window_reassigned": "win_ctor" in cfg,
                               "manipulations_by_call_keyword": any(d.get("by_call") for d in ds), "kinds": "".join(str(d["kind"]) for d in ds)}})
    return cases


def run_impl(pystog, case):
    _, snaps = SL.run_sequence(pystog, case["cfg"], case["datasets"])
    return {"snaps": snaps}


def to_coq(case, res):
    if "exception" in res:
        return None
    s = res["snaps"]
    encs = []
    for i, d in enumerate(case["datasets"]):
        pre = s[i]
        if "rejected_pre" in s[i + 1]:      # the rejected attempt is a step of its own (kind code 4), from the state it found
            post_r = dict(s[i + 1]["rejected_post"], mat=s[i + 1].get("mat"))
            encs.append(SL.add_to_coq(case["cfg"], dict(d, kind=4), s[i + 1]["rejected_pre"], post_r))
            pre = post_r
        encs.append(SL.add_to_coq(case["cfg"], d, pre, s[i + 1]))
    return encs


def nontrivial(case, res):
    return "exception" not in res and len(res["snaps"][-1]["recip"][0]) > 0


def oracle(pystog, case, res):
    """after every add_dataset the two storage arrays grew by exactly the rows the statement describes (round to 0.01, per-dataset
    window, y scaled then offset, dy scaled, Q shifted, global window), computed independently; the S(Q) row is the conversion of the
    stored row; nothing outside the global window; both arrays aligned; independent of what was added before"""
    if "exception" in res:
        return "raised %s: %s" % (res["exception"], res["message"])
    cfg = case["cfg"]
    snaps = res["snaps"]
    for i, d in enumerate(case["datasets"]):
        pre, post = snaps[i], snaps[i + 1]
        if post.get("rejected") not in (None, "clean"):
            return "dataset %d: an entry with the unknown function name %r offered before it was %s" % (
                i, d.get("rejected_before"), {"accepted": "accepted instead of rejected", "changed": "rejected, but it left rows behind in the storage arrays"}.get(post["rejected"], post["rejected"]))
        n0 = len(pre["recip"][0])
        for arr in ("recip", "sq"):
            if any(post[arr][j][:n0] != pre[arr][j] for j in range(3)):
                return "dataset %d: earlier rows were modified" % i
        new_r = [np.array(post["recip"][j][n0:]) for j in range(3)]
        new_s = [np.array(post["sq"][j][n0:]) for j in range(3)]
        x, y, e, s, ds = SL.expected_rows(dict(cfg, mat=post.get("mat") or cfg["mat"]), d)
        if len(new_r[0]) != len(x) or len(new_s[0]) != len(x):
            lost = sorted(set(np.round(x, 2)) - set(np.round(new_r[0], 2)))[:3]
            extra = sorted(set(np.round(new_r[0], 2)) - set(np.round(x, 2)))[:3]
            if not lost and not extra:
                continue  # only the rounding of a shifted Q at a window edge differs
            return "dataset %d (%s): %d rows stored, %d expected (lost %r, unexpected %r)" % (i, SL.KINDS[d["kind"]], len(new_r[0]), len(x), lost, extra)
        if len(x) == 0:
            continue
        # "Q shifted by the Q offset": to the 0.01 resolution of the grid (whether the shifted value is re-rounded is C10's business)
        if (np.abs(new_r[0] - x) > 0.005 + 1e-9).any() or not np.array_equal(new_s[0], new_r[0]):
            j = int(np.argmax(np.abs(new_r[0] - x)))
            return "dataset %d: stored Q %r, expected %r (Q shifted by the offset)" % (i, float(new_r[0][j]), float(x[j]))
        # the S(Q) row is the conversion of the row as stored (with the stored Q)
        xs_ = new_r[0]
        with np.errstate(all="ignore"):
            pos_ = xs_ > 0
            xq_ = np.where(pos_, xs_, 1.0)
            m_ = post.get("mat") or cfg["mat"]
            if d["kind"] != 0:
                s = np.where(pos_, SL.L.to_base(0, d["kind"], xq_, new_r[1], m_), 1.0)
                ds = np.where(pos_, new_r[2] * SL.L.deriv(0, d["kind"], 0, xq_, m_), 0.0)
        with np.errstate(all="ignore"):
            if (np.isnan(new_r[1]) != np.isnan(y)).any():
                return "dataset %d: stored row has NaN where y*scale + offset has none (or the reverse)" % i
            if (np.isnan(new_s[1]) != np.isnan(s)).any():
                return "dataset %d: S(Q) row is not the conversion of the stored %s row (an undefined sample is stored as %r)" % (
                    i, SL.KINDS[d["kind"]], [float(v) for v in new_s[1][np.isnan(new_s[1]) != np.isnan(s)]][:2])
            if (np.abs(new_r[1] - y) > 1e-9 * (1 + np.abs(y))).any() or (np.abs(new_r[2] - e) > 1e-9 * (1e-300 + np.abs(e))).any():
                return "dataset %d: stored row is not (y*scale + offset, dy*scale)" % i
            sc = 1 + np.abs(s) + np.abs(y) / np.where(x > 0, x, 1.0)
            if (np.abs(new_s[1] - s) > 1e-9 * sc).any() or (np.abs(new_s[2] - ds) > 1e-9 * (1e-300 + np.abs(ds))).any():
                return "dataset %d: S(Q) row is not the conversion of the stored %s row" % (i, SL.KINDS[d["kind"]])
        if cfg["Qmin"] is not None and (new_r[0] < cfg["Qmin"]).any():
            return "dataset %d: a stored point lies below the global Qmin" % i
        if cfg["Qmax"] is not None and (new_r[0] > cfg["Qmax"]).any():
            return "dataset %d: a stored point lies above the global Qmax" % i
    # the same banks as the instance's file list, read in one go by read_all_data: the same two storage arrays
    plain_ = all(not (d.get("by_call") or d.get("forward_cfg") or d.get("rejected_before") or d.get("set_before") or d.get("reuse_info_of") is not None)
                 and all(v == v and abs(v) != float("inf") for v in d["y"]) for d in case["datasets"])
    if plain_ and case["datasets"] and "win_ctor" not in cfg:
        try:
            alt = SL.read_all_route(pystog, cfg, case["datasets"])
        except Exception as ex:
            return "read_all_data on the same banks given as files raised %s: %s" % (type(ex).__name__, str(ex)[:160])
        fin = snaps[-1]
        for arr in ("recip", "sq"):
            for j in range(3):
                if not np.array_equal(np.array(alt[arr][j], float), np.array(fin[arr][j], float), equal_nan=True):
                    return "the same banks read from files by read_all_data store a different %s array (row %d) than add_dataset one by one" % (
                        {"recip": "reciprocal_individuals", "sq": "sq_individuals"}[arr], j)
        # ... an empty file list is refused outright and nothing is stored
        st_e = pystog.StoG(**SL.stog_kwargs(cfg))
        try:
            st_e.read_all_data()
            return "read_all_data without any file returned instead of raising NoInputFilesException"
        except Exception as ex:
            if type(ex).__name__ != "NoInputFilesException":
                return "read_all_data without any file raised %s (NoInputFilesException expected)" % type(ex).__name__
        if len(SL.snap(st_e)["recip"][0]) != 0:
            return "read_all_data without any file stored rows"
        # ... with a file that has no y column among them: the call raises there, the banks read before it stay stored, the rest is not read
        k_bad = len(case["datasets"]) // 2
        try:
            part = SL.read_all_route(pystog, cfg, case["datasets"], bad_at=k_bad)
        except Exception as ex:
            return "read_all_data with a one-column file among the banks: the harness route raised %s: %s" % (type(ex).__name__, str(ex)[:160])
        if part["outcome"] != "RuntimeError":
            return "read_all_data with a one-column file at position %d: %s (RuntimeError expected)" % (k_bad, part["outcome"])
        before = snaps[k_bad]
        for arr in ("recip", "sq"):
            for j in range(3):
                if not np.array_equal(np.array(part[arr][j], float), np.array(before[arr][j], float), equal_nan=True):
                    return "after read_all_data stopped at a one-column file at position %d the %s array is not that of the %d banks read before it" % (
                        k_bad, {"recip": "reciprocal_individuals", "sq": "sq_individuals"}[arr], k_bad)
    return None
