"""C12 -- StoG workflow steps equal the library primitives and are history-independent."""
import itertools
import math

import numpy as np

from . import convlib as L
from . import ftlib as F
from . import stoglib as SL

ID = "C12"
CHECKER = "chk_step"
THEOREMS = ['C12_transform_is_library_call', 'C12_transform_table', 'C12_filter_is_library_call', 'C12_filter_table', 'C12_filter_autotransforms', 'C12_merged_curves_never_modified', 'C12_merged_curves_never_modified_any', 'C12_transform_history_independent', 'C12_filter_history_independent', 'C12_step_idempotent', 'C12_lorch_is_library_call', 'C12_keen_fq_is_conversion', 'C12_keen_gr_is_conversion', 'C12_keen_gr_formulas', 'C12_stored_curves_are_functions_of_merged', 'C12g_transform_is_library_call', 'C12g_filter_autotransforms', 'C12g_merged_curves_never_modified', 'C12g_merged_curves_never_modified_any', 'C12g_transform_history_independent', 'C12g_filter_history_independent', 'C12g_step_idempotent', 'C12g_cli_is_a_workflow_run', 'C12g_filter_history_independent_binary64', 'C12g_cli_is_a_workflow_run_binary64', 'C12_lowr_get_is_library_call', 'C12_lowr_square_is_sum_of_squares', 'C12_lowr_homogeneous', 'C12_lowr_zero_iff_curve_vanishes_below_limit', 'C12_lowr_ignores_points_beyond_limit', 'C12_lowr_monotone_in_limit', 'C12_lowr_whole_curve', 'C12_lowr_empty_window', 'C12g_lowr_get_reads_stored_curve', 'C12g_lowr_ignores_unmasked_points', 'C12g_lowr_selection_is_a_sublist', 'C12g_lowr_ignores_unmasked_points_binary64', 'C12g_lowr_history_independent', 'C12g_lowr_after_transform']
RULE = ("merged S(Q) data x three real-space functions x omitted-range option on/off x every legal op sequence up to length 3 (quick; sampled "
        "to 5 in thorough) over transform_merged / fourier_filter / apply_lorch / Keen F(Q) / Keen G(r) with arguments taken from the merged or "
        "filtered curves; every executed step is one correspondence case from the implementation's own pre-state; non-trivial = the step "
        "stores a curve that is not identically 0/1; distinct by input hash; after every sequence the low-r mean square is evaluated through the "
        "instance (stored curve, default limit) and directly with limits on / between / below the grid points (Exec.chk_lowr)")
OPS = ["T", "F", "L:m", "L:f", "L:c", "KF:m", "KF:f", "KG:m", "KG:f", "KG:l"]   # L:c = Lorch step on an r vector of the caller's own
TITLES = ["sq", "qsq", "ft", "sqft", "fq", "gr", "grft", "grl", "gk"]


def legal(seq):
    """arguments must exist: ':f' needs an earlier F, 'KG:m' an earlier T or F, 'KG:l' an earlier L"""
    have_f = have_t = have_l = False
    for o in seq:
        if o.endswith(":f") and not have_f:
            return False
        if o == "KG:m" and not (have_t or have_f):
            return False
        if o == "KG:l" and not have_l:
            return False
        have_f |= o == "F"
        have_t |= o in ("T", "F")
        have_l |= o.startswith("L:")
    return True


def generate(rng, tier):
    seqs = [s for n in (1, 2, 3) for s in itertools.product(OPS, repeat=n) if legal(s)]
    if tier == "quick":
        rng.shuffle(seqs)
        seqs = [("F", "T", "F"), ("T", "F", "T"), ("F", "L:f", "KG:l"), ("T", "T"), ("F", "F"), ("T", "L:c", "KG:l"), ("L:c",), ("F", "L:c")] + seqs[:40]
    else:
        extra = []
        for _ in range(150):
            n = rng.choice([4, 5])
            s = tuple(rng.choice(OPS) for _ in range(n))
            if legal(s):
                extra.append(s)
        rng.shuffle(seqs)
        seqs = seqs[:250] + extra
    cases = []
    fixed = [("F", "F", "T"), ("T", "F", "T"), ("F", "KG:m", "F")]
    seqs = [f for f in fixed for _ in range(3)] + list(seqs)
    for i, seq in enumerate(seqs):
        nq = rng.choice([3, 6, rng.randint(3, 25)])
        dq = rng.choice([0.05, 0.1, 0.2])
        q0 = rng.choice([0.1, 0.3, 0.5])
        q = [round(q0 + j * dq, 2) for j in range(nq)]
        sq = [1 + np.sin(3 * v) * np.exp(-v / 3) + rng.uniform(-0.05, 0.05) for v in q]
        nr = rng.choice([3, 5, rng.randint(3, 20)])
        drr = rng.choice([0.05, 0.1, 0.25])
        r0 = rng.choice([0.0, drr])
        dr = [r0 + j * drr for j in range(nr)]
        mat = L.material(rng)
        cut_ = dr[-1] + 1.0 if i < 9 else rng.choice([dr[1], dr[-1] * 0.6, dr[-1] + 1.0])
        if i >= 9 and i % 8 == 5:       # a single r point inside the filter window (Rmin equal to the cutoff), with and without the correction
            dr = [drr * (j + 1) for j in range(nr)]
            r0 = drr
            cut_ = dr[0] if (i // 8) % 2 else 0.5 * (dr[0] + dr[1])
        cases.append({"q": q, "sq": [float(v) for v in sq], "dr": dr, "mat": mat, "fn": i % 3, "lowq": bool((i // 3) % 2) if i >= 9 else bool(i % 2),
                      "cutoff": cut_, "ops": list(seq),
                      "lorch_flag": bool(i % 2), "by_setters": i >= 9 and i % 4 == 2,
                      "gq": rng.choice([None, None, (None, q[-1] + 0.37), (q[0] - 0.05, q[-1] + 2.0), (None, q[-1]),
                                        # set on the instance after the merged data exist, cutting into them: the workflow steps act on the merged data as stored
                                        (q[1] + 0.001, None), (None, q[-2]), (q[1], q[-2])]),
                      "desc": {"ops": " ".join(seq), "fn": SL.FNS[i % 3], "lowq": bool((i // 3) % 2) if i >= 9 else bool(i % 2), "n_ops": len(seq), "r0_is_0": r0 == 0.0}})
    # the real-space function is changed on a live object between steps (with the curve titles left alone or relabelled by the
    # user beforehand): every step after the change acts for the function selected then
    base = [c for c in cases if len(c["dr"]) >= 3][:6]
    for j, c in enumerate(base):
        a, b = j % 3, (j + 1 + j // 3) % 3
        if a == b:
            b = (a + 1) % 3
        cases.append(dict(c, kind="switch", fn=a, fn2=b, custom_title=bool(j % 2), first=["T", "F"][(j // 2) % 2], ops=[],
                          mat2=(None if j % 3 == 0 else dict(c["mat"], rho=c["mat"]["rho"] * 1.75, bcoh=c["mat"]["bcoh"] * (0.6 if j % 3 == 1 else 1.0))),
                          desc={"ops": "switch", "fn": SL.FNS[a], "fn2": SL.FNS[b], "custom_title": bool(j % 2), "lowq": c["lowq"], "n_ops": 3,
                                "r0_is_0": c["dr"][0] == 0.0}))
    return cases


def make_stog(pystog, case):
    m = case["mat"]
    if case.get("by_setters"):
        # the same settings assigned through the attributes of a default-constructed instance (in an order a script might use)
        st = pystog.StoG()
        st.stem_name = "c12"
        st.fourier_filter_cutoff = case["cutoff"]
        st.lorch_flag = bool(case.get("lorch_flag", False))
        st.low_q_correction = case["lowq"]
        st.real_space_function = SL.FNS[case["fn"]]
        st.btot_sqrd = m["btot"]
        st.bcoh_sqrd = m["bcoh"]
        st.density = m["rho"]
    else:
        st = pystog.StoG(**{"NumberDensity": m["rho"], "<b_coh>^2": m["bcoh"], "<b_tot^2>": m["btot"],
                            "RealSpaceFunction": SL.FNS[case["fn"]], "OmittedXrangeCorrection": case["lowq"],
                            "FourierFilter": {"Cutoff": case["cutoff"]}, "Outputs": {"StemName": "c12"},
                            "LorchFlag": bool(case.get("lorch_flag", False))})
    if case.get("gq"):
        st.qmin, st.qmax = case["gq"]
    st.dr = np.array(case["dr"], float)
    st.q_master[st.sq_title] = np.array(case["q"], float)
    st.sq_master[st.sq_title] = np.array(case["sq"], float)
    return st


def snapshot(st):
    pairs = [(st.q_master, st.sq_master, st.sq_title), (st.q_master, st.sq_master, st.qsq_minus_one_title),
             (st.q_master, st.sq_master, st._ft_title), (st.q_master, st.sq_master, st.sq_ft_title),
             (st.q_master, st.sq_master, st.fq_title), (st.r_master, st.gr_master, st.gr_title),
             (st.r_master, st.gr_master, st.gr_ft_title), (st.r_master, st.gr_master, st.gr_lorch_title),
             (st.r_master, st.gr_master, st.GKofR_title)]
    out = []
    for xm, ym, t in pairs:
        if t in ym and t in xm:
            out.append([np.asarray(xm[t], float).tolist(), np.asarray(ym[t], float).tolist()])
        else:
            out.append(None)
    return out


def run_switch(pystog, case):
    st = make_stog(pystog, case)
    if case["custom_title"]:
        st.gr_title = "my g(r) curve"
    if case["first"] == "T":
        st.transform_merged()
    else:
        st.fourier_filter()
    if case.get("mat2"):      # the sample's density / coherent scattering length are corrected on the live object as well
        st.density, st.bcoh_sqrd = case["mat2"]["rho"], case["mat2"]["bcoh"]
    st.real_space_function = SL.FNS[case["fn2"]]
    out_f = [np.asarray(a, float).tolist() for a in st.fourier_filter()]
    st.transform_merged()
    out_t = [np.asarray(st.r_master[st.gr_title], float).tolist(), np.asarray(st.gr_master[st.gr_title], float).tolist()]
    return {"switch": {"filter": out_f, "transform": out_t}}


def run_impl(pystog, case):
    if case.get("kind") == "switch":
        return run_switch(pystog, case)
    st = make_stog(pystog, case)
    steps = []
    filt = None
    lor = None
    for o in case["ops"]:
        pre = snapshot(st)
        args = [[], [], []]
        if o == "T":
            st.transform_merged()
            ret = [st.r_master[st.gr_title], st.gr_master[st.gr_title]]
            code = 0
        elif o == "F":
            ret = list(st.fourier_filter())
            filt = ret
            code = 1
        elif o.startswith("L:"):
            if o.endswith("c"):    # coarser and shifted: not the instance's own r grid
                src = (st.q_master[st.sq_title], st.sq_master[st.sq_title], np.asarray(st.dr, float)[::2] + 0.013)
            else:
                src = (st.q_master[st.sq_title], st.sq_master[st.sq_title], st.dr) if o.endswith("m") else (filt[0], filt[1], filt[2])
            args = [np.asarray(a, float).tolist() for a in src]
            ret = list(st.apply_lorch(np.array(args[0]), np.array(args[1]), np.array(args[2])))
            lor = ret
            code = 2
        elif o.startswith("KF:"):
            src = (st.q_master[st.sq_title], st.sq_master[st.sq_title]) if o.endswith("m") else (filt[0], filt[1])
            args = [np.asarray(a, float).tolist() for a in src] + [[]]
            st._add_keen_fq(np.array(args[0]), np.array(args[1]))
            ret = []
            code = 3
        else:
            if o.endswith("m"):
                src = (st.r_master[st.gr_title], st.gr_master[st.gr_title])
            elif o.endswith("f"):
                src = (filt[2], filt[3])
            else:
                src = (lor[0], lor[1])
            args = [np.asarray(a, float).tolist() for a in src] + [[]]
            st._add_keen_gr(np.array(args[0]), np.array(args[1]))
            ret = []
            code = 4
        steps.append({"op": o, "code": code, "args": args, "pre": pre, "post": snapshot(st),
                      "ret": [np.asarray(a, float).tolist() for a in ret]})
    return {"steps": steps, "lowr": run_lowr(st, case)}


def run_lowr(st, case):
    """the low-r cost function on the state the sequence left behind: through the instance (stored curve, own r grid, default limit) when a
    real-space curve is stored, and directly with a limit that hits a grid point exactly (closed bound) or falls between two"""
    pre = snapshot(st)
    dr = np.asarray(st.dr, float)
    out = []
    if st.gr_title in st.gr_master and len(st.gr_master[st.gr_title]) == len(dr):
        g = np.asarray(st.gr_master[st.gr_title], float)
        out.append({"r": dr.tolist(), "g": g.tolist(), "limit": 1.01, "default": 1, "value": float(st._get_lowR_mean_square())})
    else:
        g = np.array([np.sin(7.0 * v) - 0.3 for v in dr])
    k = len(case["q"]) % len(dr)
    step = float(dr[1] - dr[0])
    for limit in (float(dr[k]), float(dr[k]) + 0.5 * step, float(dr[0]) - 0.5 * step):
        out.append({"r": dr.tolist(), "g": g.tolist(), "limit": limit, "default": 0,
                    "value": float(st._lowR_mean_square(np.array(dr), np.array(g), limit))})
    out.append({"r": dr.tolist(), "g": g.tolist(), "limit": 1.01, "default": 0, "value": float(st._lowR_mean_square(np.array(dr), np.array(g)))})
    return {"calls": out, "state_unchanged": pre == snapshot(st)}


def to_coq(case, res):
    if "exception" in res or case.get("kind") == "switch":
        return None
    m = case["mat"]
    encs = []
    for s in res["steps"]:
        fl = [case["dr"]] + s["args"]
        for snap in (s["pre"], s["post"]):
            for c in snap:
                fl += [c[0], c[1]] if c is not None else [[], []]
        fl += s["ret"] + [[]] * (4 - len(s["ret"]))
        zs = [case["fn"], 1 if case["lowq"] else 0, s["code"]] + [0 if c is None else 1 for c in s["pre"]] + [0 if c is None else 1 for c in s["post"]]
        encs.append(("chk_step", (fl, [m["rho"], m["bcoh"], m["btot"], case["cutoff"]], zs, [])))
    for c in res.get("lowr", {}).get("calls", []):
        encs.append(("chk_lowr", ([c["r"], c["g"]], [c["limit"]], [c["default"]], [[c["value"]]])))
    return encs


def nontrivial(case, res):
    if case.get("kind") == "switch":
        return "exception" not in res
    return "exception" not in res and len(res["steps"]) > 0


def oracle(pystog, case, res):
    """every step's stored curves and return values are bit-identical to the direct Transformer / FourierFilter / Converter call on the
    merged data with the instance's constants and options; every Transform (resp. Filter) result in a sequence is identical to every
    other one whatever ran in between; merged curves never change"""
    if "exception" in res:
        return "raised %s: %s (ops %s)" % (res["exception"], res["message"], " ".join(case["ops"]))
    m = case["mat"]
    tr, ff, cv = pystog.Transformer(), pystog.FourierFilter(), pystog.Converter()
    if case.get("kind") == "switch":
        m = case.get("mat2") or m
        fn2 = SL.FNS[case["fn2"]].replace("(r)", "")
        q, sq, dr = np.array(case["q"], float), np.array(case["sq"], float), np.array(case["dr"], float)
        r0, g0, _ = getattr(tr, "S_to_" + fn2)(q, sq, dr, **{"lorch": False, "rho": m["rho"], "<b_coh>^2": m["bcoh"]})
        fk = {"lorch": False, "rho": m["rho"], "<b_coh>^2": m["bcoh"], "OmittedXrangeCorrection": case["lowq"]}
        fo = getattr(ff, fn2 + "_using_S")(r0, g0, q, sq, case["cutoff"], **fk)
        want = [np.around(fo[2], 2), np.around(fo[3], 16), fo[4], fo[5]]
        got = res["switch"]
        if not all(np.array_equal(np.asarray(a, float), np.asarray(b, float), equal_nan=True) for a, b in zip(got["filter"], want)):
            return "after real_space_function was changed from %s to %s (%s, first step %s) fourier_filter differs from FourierFilter.%s_using_S on the merged data" % (
                SL.FNS[case["fn"]], SL.FNS[case["fn2"]], "curve title relabelled beforehand" if case["custom_title"] else "default titles", case["first"], fn2)
        if not (np.array_equal(np.asarray(got["transform"][0], float), r0) and np.array_equal(np.asarray(got["transform"][1], float), g0, equal_nan=True)):
            return "after real_space_function was changed to %s transform_merged differs from Transformer.S_to_%s on the merged data" % (SL.FNS[case["fn2"]], fn2)
        return None
    fn = SL.FNS[case["fn"]].replace("(r)", "")
    q, sq, dr = np.array(case["q"], float), np.array(case["sq"], float), np.array(case["dr"], float)
    r0, g0, _ = getattr(tr, "S_to_" + fn)(q, sq, dr, **{"lorch": False, "rho": m["rho"], "<b_coh>^2": m["bcoh"]})
    fk = {"lorch": False, "rho": m["rho"], "<b_coh>^2": m["bcoh"], "OmittedXrangeCorrection": case["lowq"]}
    fo = getattr(ff, fn + "_using_S")(r0, g0, q, sq, case["cutoff"], **fk)
    want_f = [np.around(fo[2], 2), np.around(fo[3], 16), fo[4], fo[5]]
    want_ft = [np.around(fo[0], 2), np.around(fo[1], 16)]

    def same(a, b):
        return np.array_equal(np.asarray(a, float), np.asarray(b, float), equal_nan=True)

    for i, s in enumerate(res["steps"]):
        post = s["post"]
        if not (same(post[0][0], q) and same(post[0][1], sq)):
            return "step %d (%s) modified the merged S(Q)" % (i, s["op"])
        if s["code"] == 0:
            if not (same(s["ret"][0], r0) and same(s["ret"][1], g0) and same(post[5][1], g0)):
                return "step %d: transform_merged differs from Transformer.S_to_%s on the merged data (after %s)" % (i, fn, " ".join(case["ops"][:i]) or "nothing")
        elif s["code"] == 1:
            if not all(same(a, b) for a, b in zip(s["ret"], want_f)):
                return "step %d: fourier_filter differs from FourierFilter.%s_using_S on the merged data and its transform (after %s)" % (i, fn, " ".join(case["ops"][:i]) or "nothing")
            if not (same(post[2][0], want_ft[0]) and same(post[2][1], want_ft[1]) and same(post[3][1], want_f[1]) and same(post[6][1], want_f[3]) and same(post[5][1], g0)):
                return "step %d: fourier_filter stored curves differ from the library call" % i
        elif s["code"] == 2:
            a = [np.array(v, float) for v in s["args"]]
            kw = {"g": {"lorch": True, "rho": m["rho"]}, "G": {"lorch": True}, "GK": {"lorch": True, "rho": m["rho"], "<b_coh>^2": m["bcoh"]}}[fn]
            _, gl, _ = getattr(tr, "S_to_" + fn)(a[0], a[1], a[2], **kw)
            if not (same(s["ret"][0], a[2]) and same(s["ret"][1], gl) and same(post[7][0], a[2]) and same(post[7][1], gl)):
                return "step %d: apply_lorch differs from Transformer.S_to_%s(lorch=True)" % (i, fn)
        elif s["code"] == 3:
            a = [np.array(v, float) for v in s["args"][:2]]
            fkq, _ = cv.S_to_FK(a[0], a[1], **{"rho": m["rho"], "<b_coh>^2": m["bcoh"]})
            if not same(post[4][1], fkq):
                return "step %d: Keen F(Q) is not Converter.S_to_FK of the curve" % i
        else:
            a = [np.array(v, float) for v in s["args"][:2]]
            gk = a[1] if fn == "GK" else getattr(cv, fn + "_to_GK")(a[0], a[1], **{"rho": m["rho"], "<b_coh>^2": m["bcoh"]})[0]
            if not same(post[8][1], gk):
                return "step %d: Keen G(r) is not the conversion of the curve" % i
    lr = res.get("lowr")
    if lr:
        if not lr["state_unchanged"]:
            return "evaluating the low-r mean square changed a stored curve (after %s)" % " ".join(case["ops"])
        for c in lr["calls"]:
            want = math.sqrt(math.fsum(y * y for x, y in zip(c["r"], c["g"]) if x <= c["limit"]))
            if not abs(c["value"] - want) <= 1e-12 * max(1.0, want):
                return "low-r mean square (%s, limit %r) is %r, the norm of the points with r <= limit is %r (after %s)" % (
                    "through the instance" if c["default"] else "direct call", c["limit"], c["value"], want, " ".join(case["ops"]))
    return None
