"""C10 -- merging averages coincident Q points onto a sorted unique grid, in any order."""
import itertools

import numpy as np

from . import stoglib as SL

ID = "C10"
CHECKER = "chk_merge"
THEOREMS = ['C10_strictly_increasing', 'C10_keys_exactly_once', 'C10_value_is_mean', 'C10_between_min_max', 'C10_order_independent_items', 'C10_order_independent_state', 'C10_init_state_aligned', 'C10_order_independent_state_rows', 'C10_merged_grid', 'C10_sort_perm', 'C10_sort_sorted', 'C10_sort_sorted_id', 'C10_merge_idempotent', 'C10_keys_on_001_grid', 'C10_merged_keys_on_001_grid', 'C10_merge_add_rows_are_a_permutation', 'C10_merge_add_merge']
RULE = ("1-6 overlapping datasets with per-dataset crops, scales and Q offsets (multiples of 0.01 such as 0.1, and others), global windows; "
        "merge_data from the implementation's own sq_individuals is one correspondence case; the oracle re-adds the datasets in other orders "
        "(all permutations for <= 4 datasets in the thorough tier) and merges twice; non-trivial = at least two points share a Q; distinct by input hash")


def generate(rng, tier):
    n = 40 if tier == "quick" else 250
    cases = []
    # a fixed pair: a bank whose first and last Q plus its Q offset are inexact binary sums (0.2 + 0.1, 0.7 + 0.1) next to one that covers them
    cfg0 = {"mat": {"rho": 0.05, "bcoh": 2.5, "btot": 1.25}, "Qmin": None, "Qmax": None}
    xa = [round(0.2 + 0.05 * j, 2) for j in range(11)]
    xb = [round(0.1 + 0.1 * j, 2) for j in range(10)]
    da = {"x": xa, "kind": 0, "style": "exact", "s_true": [1.0 + 0.2 * (-1) ** j for j in range(len(xa))], "dy": None, "Qmin": None, "Qmax": None,
          "Y": None, "X": {"Offset": 0.1}}
    db = {"x": xb, "kind": 1, "style": "exact", "s_true": [1.5 + 0.1 * j for j in range(len(xb))], "dy": None, "Qmin": None, "Qmax": None, "Y": None, "X": None}
    cases.append({"cfg": cfg0, "datasets": [SL.finish_dataset(da, cfg0["mat"]), SL.finish_dataset(db, cfg0["mat"])], "tier": tier,
                  "desc": {"n_datasets": 2, "any_xoffset": True, "global_window": False, "fixed": "inexact shifted edges"}})
    for i in range(n):
        cfg = SL.gen_config(rng)
        k = rng.choice([1, 2, 3, 4, rng.randint(2, 6)])
        ds = []
        for j in range(k):
            d = SL.gen_dataset(rng, tier)
            if i % 3 == 0 and d["X"] is not None and "Offset" in d["X"]:
                d["X"]["Offset"] = rng.choice([0.1, 0.2, 0.3, 0.01, -0.1, 0.07])
            if i % 5 == 0:
                d["style"], d["x"] = "exact", sorted(d["x"])
            if i % 4 == 1:       # several datasets sharing the point Q = 0.00 (and its neighbours)
                d["style"] = "from0"
                d["x"] = [round(0.01 * k, 2) for k in range(len(d["x"]))]
                d["Qmin"] = None if d["Qmin"] is None else 0.0
                if d["X"] is not None and "Offset" in d["X"]:
                    d["X"]["Offset"] = rng.choice([0.0, 0.01])
            ds.append(SL.finish_dataset(d, cfg["mat"]))
        if i % 7 == 1 and ds:
            # one empty / zero-count bin: a NaN (or infinite) S(Q) sample spoils the merged value at its own Q only
            d = ds[rng.randrange(len(ds))]
            j = rng.randrange(len(d["x"]))
            d["s_true"] = list(d["s_true"])
            d["s_true"][j] = float("nan") if (i // 7) % 2 == 0 else float("inf")
            SL.finish_dataset(d, cfg["mat"])
            d["nonfinite_sample"] = True
        if i % 7 == 5:
            # raw abscissae a hair off the 0.01 grid and a per-dataset window edge exactly on the grid value of one of them; no Q offsets
            for d in ds:
                d["x"] = sorted(round(v, 2) + rng.choice([-0.003, 0.002, 0.004, 3e-17]) for v in d["x"])
                d["style"] = "jitter"
                d["X"] = None
                j = rng.randrange(len(d["x"]))
                u_ = rng.random()
                if u_ < 0.3:
                    d["Qmax"], d["Qmin"] = round(d["x"][j], 2), None
                elif u_ < 0.6:
                    d["Qmin"], d["Qmax"] = round(d["x"][j], 2), None
                elif u_ < 0.8:       # an edge that is not a multiple of 0.01 and excludes the point next to it (1.904 keeps 1.90 out)
                    d["Qmin"], d["Qmax"] = round(d["x"][j], 2) + 0.004, None
                else:
                    d["Qmax"], d["Qmin"] = round(d["x"][j], 2) - 0.004, None
                SL.finish_dataset(d, cfg["mat"])
        if i % 7 == 3 and len(ds) >= 1:
            # the same bank contributed twice (bit-identical points) next to a different one: the mean counts every contribution
            twin = dict(ds[0])
            other = dict(ds[0], s_true=[v + 0.25 for v in ds[0]["s_true"]])
            ds = ds + [twin, SL.finish_dataset(other, cfg["mat"])]
            k = len(ds)
        if i % 7 == 5 or i % 8 == 2:
            # the banks arrive through read_dataset (text files with the raw abscissae in full precision, default or named column order)
            for j, d in enumerate(ds):
                if all(v == v and abs(v) != float("inf") for v in d["y"]):
                    d["via_file"] = ["default", "cols"][(i + j) % 2]
        cases.append({"cfg": cfg, "datasets": ds, "tier": tier,
                      "desc": {"n_datasets": k, "any_xoffset": any(d["X"] is not None for d in ds), "through_read_dataset": any(d.get("via_file") for d in ds),
                               "global_window": cfg["Qmin"] is not None or cfg["Qmax"] is not None}})
    return cases


def merged(stog):
    return (np.asarray(stog.q_master[stog.sq_title], float), np.asarray(stog.sq_master[stog.sq_title], float),
            np.asarray(stog.sq_master[stog.qsq_minus_one_title], float))


def prepare(pystog, case):
    stog, snaps = SL.run_sequence(pystog, case["cfg"], case["datasets"])
    if case.get("assign_points"):
        # the stored points are assigned through the storage attributes (two overlapping banks sampled every 0.004: finer than the 0.01
        # resolution add_dataset imposes); merge_data averages points with equal Q and keeps distinct Q values apart
        qa = [round(0.300 + 0.004 * k, 3) for k in range(40)]
        qb = [round(0.380 + 0.004 * k, 3) for k in range(40)]
        qq = np.array(qa + qb)
        ss = np.array([1.0 + 0.3 * np.sin(7.0 * v) for v in qa] + [1.05 + 0.3 * np.sin(7.0 * v) + 0.02 * (k % 3) for k, v in enumerate(qb)])
        pts = np.stack((qq, ss, np.full_like(qq, 0.01)))
        stog.sq_individuals = pts
        stog.reciprocal_individuals = pts.copy()
        snaps = snaps + [SL.snap(stog)]
    return stog, snaps


def run_impl(pystog, case):
    stog, snaps = prepare(pystog, case)
    pre = snaps[-1]
    if len(pre["sq"][0]) == 0:
        return {"empty": True, "pre": pre}
    if case.get("late_window"):      # Qmin / Qmax set on the instance after the datasets were added: the merge acts on the stored points
        stog.qmin, stog.qmax = case["late_window"]
    stog.merge_data()
    q, sq, fq = merged(stog)
    post = SL.snap(stog)
    return {"pre": pre, "post": post, "q": q.tolist(), "sq": sq.tolist(), "fq": fq.tolist()}


def merge_to_coq(cfg, res):
    m = cfg["mat"]
    mo = cfg.get("Merging") or {}
    Y = mo.get("Y")
    F = mo.get("Q[S(Q)-1]")
    FY = None if F is None else F.get("Y")
    sc = [(Y or {}).get("Scale", 0.0), (Y or {}).get("Offset", 0.0), (FY or {}).get("Scale", 0.0), (FY or {}).get("Offset", 0.0),
          m["rho"], m["bcoh"], m["btot"]]
    zs = [0 if Y is None else 1, 1 if (Y and "Scale" in Y) else 0, 1 if (Y and "Offset" in Y) else 0,
          0 if F is None else 1, 0 if FY is None else 1, 1 if (FY and "Scale" in FY) else 0, 1 if (FY and "Offset" in FY) else 0]
    out = res["post"]["sq"] + [res["q"], res["sq"], res["q"], res["fq"]]
    return ("chk_merge", (res["pre"]["sq"], sc, zs, out))


def to_coq(case, res):
    if "exception" in res or res.get("empty"):
        return None
    return [merge_to_coq(case["cfg"], res)]


def nontrivial(case, res):
    if "exception" in res or res.get("empty"):
        return False
    x = res["pre"]["sq"][0]
    return len(set(x)) < len(x)


def oracle(pystog, case, res):
    """merged Q strictly increasing; every stored Q is a multiple of 0.01 (as a binary64 value: equals round(Q,2)) and appears exactly
    once; value = arithmetic mean of all S(Q) points with that Q (between their min and max); the same result for other add orders;
    a second merge_data changes nothing"""
    if "exception" in res:
        return "raised %s: %s" % (res["exception"], res["message"])
    if res.get("empty"):
        return None
    q, sq = np.array(res["q"]), np.array(res["sq"])
    if len(q) > 1 and not (np.diff(q) > 0).all():
        return "merged Q grid is not strictly increasing"
    x, y = np.array(res["pre"]["sq"][0]), np.array(res["pre"]["sq"][1])
    keys = np.round(x, 2)
    dup = [v for v in sorted(set(keys.tolist())) if (np.abs(q - v) < 0.004).sum() > 1]
    if dup:
        near = q[np.abs(q - dup[0]) < 0.004].tolist()
        return "the 0.01-resolution Q value %r appears %d times in the merged grid: %r (a Q offset was added after rounding)" % (dup[0], len(near), near)
    if not np.array_equal(q, np.round(q, 2)):
        j = int(np.flatnonzero(q != np.round(q, 2))[0])
        return "merged Q value %r is not on the 0.01 grid (a Q offset was added after rounding)" % float(q[j])
    if sorted(set(keys.tolist())) != q.tolist():
        return "merged grid is not the set of 0.01-resolution input Q values (differs at %r)" % (sorted(set(keys.tolist()) ^ set(q.tolist()))[:2],)
    for qq, v in zip(q, sq):
        ys = y[keys == qq]
        if not np.isfinite(ys).all():      # a non-finite contribution spoils its own Q only (stored as 0 or infinity there)
            continue
        mean = ys.mean()
        if qq > 0 and abs(v - mean) > 1e-9 * (1 + np.abs(ys).max()):
            return "merged value %r at Q=%r is not the mean %r of its %d contributions" % (float(v), float(qq), float(mean), len(ys))
        if qq > 0 and not (ys.min() - 1e-9 <= v <= ys.max() + 1e-9):
            return "merged value at Q=%r lies outside [min, max] of its contributions" % float(qq)
    ds = case["datasets"]
    # end to end, from the inputs as given (no Q offsets: where the statement leaves no rounding choice): the grid is the set of
    # 0.01-resolution Q values of the points inside their windows and the value is the mean of their S(Q)
    if True:      # (with Q offsets too: the shifted Q is re-rounded to the 0.01 grid, as the statement's "0.01-resolution Q value" says)
        ex, es = [], []
        for d in ds:
            x_, _, _, s_, _ = SL.expected_rows(case["cfg"], d)
            ex += np.round(x_, 2).tolist()
            es += np.asarray(s_, float).tolist()
        ex, es = np.array(ex), np.array(es)
        want_keys = sorted(set(ex.tolist()))
        if want_keys != q.tolist():
            return "merged grid is not the set of 0.01-resolution Q values of the input points inside their windows (differs at %r)" % (sorted(set(want_keys) ^ set(q.tolist()))[:3],)
        for qq, v in zip(q, sq):
            ys = es[ex == qq]
            if qq > 0 and np.isfinite(ys).all() and abs(v - ys.mean()) > 1e-9 * (1 + np.abs(ys).max() + np.abs(ys).max() / qq):
                return "merged value %r at Q=%r is not the mean %r of the S(Q) of the %d input points there" % (float(v), float(qq), float(ys.mean()), len(ys))
    orders = []
    if len(ds) > 1:
        if case.get("tier") == "thorough" and len(ds) <= 4:
            orders = list(itertools.permutations(range(len(ds))))[1:]
        else:
            orders = [tuple(reversed(range(len(ds)))), tuple(list(range(1, len(ds))) + [0])]
    for o in orders:
        st, _ = SL.run_sequence(pystog, case["cfg"], [ds[i] for i in o])
        st.merge_data()
        q2, s2, _ = merged(st)
        if not np.array_equal(q2, q):
            return "merged Q grid depends on the order in which datasets were added (order %r)" % (o,)
        if (np.abs(s2 - sq) > 1e-9 * (1 + np.abs(sq))).any():
            return "merged values depend on the order in which datasets were added (order %r)" % (o,)
    st, _ = SL.run_sequence(pystog, case["cfg"], ds)
    st.merge_data()
    a = merged(st)
    st.merge_data()
    b = merged(st)
    if not all(np.array_equal(u, v, equal_nan=True) for u, v in zip(a, b)):
        return "a second merge_data without new data changed the result"
    # merge, add a further bank, merge again: the result is that of merging all banks at once (the mean counts every stored point once)
    if len(ds) >= 2 and not case.get("late_window") and not case.get("assign_points"):
        st, _ = SL.run_sequence(pystog, case["cfg"], ds[:-1])
        if len(SL.snap(st)["sq"][0]) > 0:
            st.merge_data()
        st.add_dataset(SL.info_of(ds[-1]), **SL.call_kw_of(ds[-1], case["cfg"]))
        st.merge_data()
        q3, s3, _ = merged(st)
        if not np.array_equal(q3, q):
            return "merging, adding the last bank and merging again gives another Q grid than merging all banks at once"
        with np.errstate(all="ignore"):
            bad3 = np.abs(s3 - sq) > 1e-9 * (1 + np.abs(sq))
        if (bad3 & np.isfinite(sq)).any():
            j = int(np.flatnonzero(bad3 & np.isfinite(sq))[0])
            return "merged value %r at Q=%r after (merge, add the last bank, merge again) differs from %r obtained by merging all banks at once" % (
                float(s3[j]), float(q[j]), float(sq[j]))
    return None
