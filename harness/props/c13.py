"""C13 -- a transform window uses exactly the in-window points and nothing else."""
import numpy as np

from . import ftlib as F

ID = "C13"
CHECKER = "chk_ft"
THEOREMS = ['C13_crop_is_filter', 'C13_crop_in_window', 'C13_crop_keeps_inside', 'C13_crop_lengths', 'C13_crop_idem', 'C13_window_is_precrop', 'C13_outside_irrelevant', 'C13_crop_full_range', 'C13_no_window_is_full_range', 'C13g_crop_is_filter', 'C13g_crop_lengths', 'C13g_crop_idem', 'C13g_window_is_precrop', 'C13g_outside_irrelevant', 'C13g_no_window_is_full_range', 'C13g_crop_is_filter_binary64', 'C13g_crop_idem_binary64', 'C13g_window_is_precrop_binary64']
RULE = ("fourier_transform and apply_cropping with windows on grid points / between them / partly or wholly outside / one-sided / absent, "
        "Lorch on and off, with and without uncertainties; the implementation additionally gets NaN/inf outside the window in the oracle; "
        "non-trivial = some output non-zero; distinct by input hash")


def generate(rng, tier):
    n = 120 if tier == "quick" else 800
    cases = []
    for i in range(n):
        win = ["grid", "between", "outside", "lo_only", "hi_only", "hi_grid", "none", "near", "near"][i % 9]
        if i % 6 == 5:
            win = ["between", "grid", "lo_only", "hi_only"][(i // 6) % 4]      # unsorted abscissae: the window must cut somewhere
        c = F.gen_ft_case(rng, tier, lorch=(i % 3 == 0), channel=2, win=win, unsorted=(i % 6 == 5),
                          omitted=(i % 7 == 3 and win in ("grid", "lo_only", "near")))
        if c["omitted"]:      # keep Qmin > 0 and the r grid away from the singular points of the closed form
            sh = 0.4 - min(c["xin"]) if min(c["xin"]) < 0.4 else 0.0
            c["xin"] = [v + sh for v in c["xin"]]
            c["xmin"] = None if c["xmin"] is None else c["xmin"] + sh
            c["xmax"] = None if c["xmax"] is None else c["xmax"] + sh
            c["xout"] = [abs(v) + 0.05 for v in c["xout"]]
            c["int_dtype"] = [False, c["int_dtype"][1], False]
            if c["lorch"]:
                c["lorch"] = False
                c["desc"]["lorch"] = False
            lo_ = c["xmin"] if c["xmin"] is not None else min(c["xin"])
            hi_ = c["xmax"] if c["xmax"] is not None else max(c["xin"])
            if not any(lo_ <= v <= hi_ for v in c["xin"]):     # an empty window has no Qmin: the option is undefined there
                c["omitted"] = False
                c["desc"]["omitted"] = False
            elif c["xmin"] is not None and c["xmin"] > 0 and sorted(c["xin"]) == c["xin"] and (i // 7) % 2 == 0:
                # the data start at the origin, the window leaves that point out: Qmin of the correction is the first point kept
                c["xin"] = [0.0] + list(c["xin"])
                c["yin"] = [0.75] + list(c["yin"])
                if c["dy"] is not None:
                    c["dy"] = [0.02] + list(c["dy"])
                c["int_dtype"] = [False, False, c["int_dtype"][2]]
                c["desc"]["n"] = len(c["xin"])
                c["desc"]["grid"] = str(c["desc"]["grid"]) + "+origin_outside_window"
        if i % 10 == 4 and len(c["xin"]) >= 3:
            # a grid with points on both sides of zero and a window edge exactly at 0.0
            k = len(c["xin"]) // 2
            shift = c["xin"][k]
            c["xin"] = [v - shift for v in c["xin"]]
            c["int_dtype"] = [False, c["int_dtype"][1], c["int_dtype"][2]]
            if (i // 10) % 2 == 0:
                c["xmin"], c["xmax"] = 0.0, (None if c["lorch"] else c["xin"][-1])
                if c["lorch"]:
                    c["xmax"] = c["xin"][-1]
            else:
                c["xmin"], c["xmax"] = c["xin"][0], 0.0
                c["lorch"] = False            # Lorch with an upper limit of 0 is pi/0
                c["desc"]["lorch"] = False
            c["desc"]["window"] = "edge_at_zero"
            c["desc"]["zero_on_grid"] = True
        if i % 10 == 9 and len(c["xin"]) >= 3 and not c["omitted"] and not (i % 6 == 5):
            # abscissae on both sides of zero (or all below it) and NO lower limit given: omitting it means the full data range
            k = len(c["xin"]) // 2
            shift = c["xin"][k] + (0.0 if (i // 10) % 2 else 0.013)
            if (i // 10) % 3 == 2 and not c["lorch"]:
                shift = c["xin"][-1] + 0.25          # every abscissa negative
            c["xin"] = [v - shift for v in c["xin"]]
            c["int_dtype"] = [False, c["int_dtype"][1], c["int_dtype"][2]]
            c["xmin"] = None
            c["xmax"] = None if (i // 10) % 2 else c["xin"][-1]
            c["desc"]["window"] = "no_lower_limit_negative_abscissae"
        if i % 10 == 7 and len(c["xin"]) >= 4 and c["xmin"] is None and not c["omitted"] and not (i % 6 == 5) and sorted(c["xin"]) == c["xin"]:
            # a dead bin (NaN abscissa, not the first one) and no lower limit (or no window at all): the full range of the other points
            c["xin"] = list(c["xin"])
            c["xin"][len(c["xin"]) // 2] = float("nan")
            c["int_dtype"] = [False, c["int_dtype"][1], c["int_dtype"][2]]
            c["desc"]["grid"] = str(c["desc"]["grid"]) + "+nan_abscissa_no_lower_limit"
        if i % 10 == 2 and len(c["xin"]) >= 4 and c["xmin"] is not None and c["xmax"] is not None and not c["omitted"] and not (i % 6 == 5):
            # a dead bin: one abscissa is NaN; it is in no closed interval, so an explicit window deletes it
            c["xin"] = list(c["xin"])
            c["xin"][len(c["xin"]) // 2] = float("nan")
            c["int_dtype"] = [False, c["int_dtype"][1], c["int_dtype"][2]]
            c["desc"]["grid"] = str(c["desc"]["grid"]) + "+nan_abscissa"
        if i % 10 == 1 and len(c["xin"]) >= 4 and not c["omitted"] and not (i % 6 == 5) and sorted(c["xin"]) == c["xin"]:
            # two banks joined end to end: one abscissa occurs twice, with different samples (both are in every closed interval that holds it)
            k = len(c["xin"]) // 2
            c["xin"] = c["xin"][:k + 1] + [c["xin"][k]] + c["xin"][k + 1:]
            c["yin"] = c["yin"][:k + 1] + [2.0 * c["yin"][k] + 1.0] + c["yin"][k + 1:]
            if c["dy"] is not None:
                c["dy"] = c["dy"][:k + 1] + [2.0 * c["dy"][k] + 0.5] + c["dy"][k + 1:]
            c["int_dtype"] = [c["int_dtype"][0], False, c["int_dtype"][2]]
            if (i // 10) % 3 == 1:
                c["xmin"] = c["xin"][k]                   # the repeated value is the lower edge
                if c["xmax"] is not None and c["xmax"] <= c["xmin"]:
                    c["xmax"] = None
            elif (i // 10) % 3 == 2 and not c["lorch"]:
                c["xmin"] = c["xmax"] = None
            c["desc"]["n"] = len(c["xin"])
            c["desc"]["grid"] = str(c["desc"]["grid"]) + "+repeated_abscissa"
        cases.append(c)
    return cases


def run_impl(pystog, case):
    res = F.run_ft(pystog, case)
    tr = pystog.Transformer()
    lo = case["xmin"] if case["xmin"] is not None else min(case["xin"])
    hi = case["xmax"] if case["xmax"] is not None else max(case["xin"])
    d = case["dy"]
    cx, cy, ce = tr.apply_cropping(np.array(case["xin"], float), np.array(case["yin"], float), lo, hi,
                                   dy=None if d is None else np.array(d, float))
    res["crop"] = [np.asarray(cx, float).tolist(), np.asarray(cy, float).tolist(), np.asarray(ce, float).tolist()]
    res["crop_window"] = [lo, hi]
    return res


def to_coq(case, res):
    encs = [("chk_ft", F.ft_to_coq(case, res))]
    if "exception" not in res:
        d = case["dy"]
        encs.append(("chk_crop", ([case["xin"], case["yin"], d if d is not None else []], res["crop_window"],
                                  [0 if d is None else 1], res["crop"])))
    return encs


nontrivial = F.nontrivial_ft


def oracle(pystog, case, res):
    """apply_cropping = order-preserving closed-interval filter of the aligned triple; the windowed transform is
    bit-identical to the transform of the pre-deleted points with the same window, and is unchanged when everything
    outside the window is replaced by NaN / inf"""
    if "exception" in res:
        return "raised %s: %s" % (res["exception"], res["message"])
    x, y = case["xin"], case["yin"]
    e = case["dy"] if case["dy"] is not None else [0.0] * len(x)
    lo, hi = res["crop_window"]
    want = F.crop_py(x, y, e, lo, hi)
    if [list(w) for w in want] != res["crop"]:
        return "apply_cropping differs from the closed-interval filter"
    if case["xmin"] is None and case["xmax"] is None:
        if res["crop"][0] != [v for v in x if v == v]:      # (a NaN abscissa is in no interval, not even the full range)
            return "no window but points were dropped"
    ref = np.array(res["yout"]), np.array(res["eout"])
    if len(want[0]) >= 1:
        _, y2, e2 = F.call_ft(pystog, case, xin=want[0], yin=want[1], dy=want[2], xmin=lo, xmax=hi)
        if not (np.array_equal(y2, ref[0], equal_nan=True) and np.array_equal(e2, ref[1], equal_nan=True)):
            return "transform of the pre-cropped data differs from the windowed transform"
    if not case["omitted"] and len(want[0]) >= 1 and all(v == v and abs(v) != float("inf") for v in list(want[0]) + list(want[1]) + [hi]) and (not case["lorch"] or hi != 0):
        # exactly the in-window points, each with its own sample: the trapezoid sum over the kept points (independent quadrature;
        # with Lorch the samples carry the weight sin(ax)/(ax), a = pi / upper limit)
        yk = list(want[1]) if not case["lorch"] else [v * F.lorch_w(np.pi / hi, u) for u, v in zip(want[0], want[1])]
        for xp, v in zip(case["xout"], res["yout"]):
            w_, mag = F.trapz_sine(list(want[0]), yk, xp)
            if abs(v - w_) > 1e-9 * mag + 1e-300:
                return "value %r at x'=%r is not the trapezoid sum %r over the %d points inside the window" % (v, xp, w_, len(want[0]))
    for fill in (float("nan"), float("inf")):
        yb = [v if lo <= u <= hi else fill for u, v in zip(x, y)]
        eb = [v if lo <= u <= hi else fill for u, v in zip(x, e)]
        _, y3, e3 = F.call_ft(pystog, case, yin=yb, dy=eb, xmin=lo, xmax=hi)
        if not (np.array_equal(y3, ref[0], equal_nan=True) and np.array_equal(e3, ref[1], equal_nan=True)):
            return "values outside the window (%r) influence the result" % fill
    return None
