"""C06 -- conversions propagate uncertainties to first order, independently of values."""
import numpy as np

from . import convlib as L

ID = "C06"
CHECKER = "chk_conv"
THEOREMS = ["C06_derivative_meaning_recip", "C06_derivative_meaning_real", "C06_first_order_recip", "C06_first_order_real",
            "C06_value_independent_recip", "C06_value_independent_real", "C06_none_gives_zeros_recip",
            "C06_none_gives_zeros_real", "C06_nonneg_recip", "C06_nonneg_real", "C06_roundtrip_recip", "C06_roundtrip_real"]
RULE = ("all 18 conversions x sampled grids/values, uncertainty argument absent / zeros / sparse / positive / large; "
        "the second return value is what is compared; non-trivial = some value or uncertainty non-zero; distinct by input hash")


def generate(rng, tier):
    return (L.gen_conv_cases(rng, tier, 0, 1, nonfinite_dy=True) + L.gen_conv_cases(rng, tier, 1, 1, nonfinite_dy=True)
            + L.gen_conv_cases(rng, tier, 1, 1))


run_impl = L.run_conv
to_coq = L.conv_to_coq
nontrivial = L.nontrivial_conv


def oracle(pystog, case, res):
    """second return value: an array (zeros when no uncertainty given), equal to |dY/dX| * dy for x>0,
    unchanged when the function values are replaced by others, non-negative, and restored by the inverse conversion"""
    if "exception" in res:
        return "conversion raised %s: %s" % (res["exception"], res["message"])
    msg_ = L.same_arrays_twice(pystog, case)
    if msg_:
        return msg_
    sp, a, b, m = case["space"], case["X"], case["Y"], case["mat"]
    names = L.RN if sp == 0 else L.GN
    nm = "%s_to_%s" % (names[a], names[b])
    x = np.array(case["x"], float)
    e = res["err"]
    if e is None:
        return "%s returned None as uncertainty (dy %s)" % (nm, "absent" if case["dy"] is None else "given")
    e = np.array(e, float)
    if e.shape != x.shape:
        return "%s: uncertainty output has wrong shape" % nm
    if case["dy"] is None:
        if (e != 0).any():
            return "%s: no uncertainty supplied but output is not zero" % nm
        return None
    dy = np.array(case["dy"], float)
    if m["bcoh"] <= 0 or m["rho"] <= 0:
        return None
    pos = (x >= 1e-3) & (x <= 1e3)
    inf_in = pos & np.isinf(dy)
    if inf_in.any() and not np.isinf(e[inf_in]).all():      # an infinite uncertainty ("unknown") stays infinite: slope times infinity
        j = int(np.flatnonzero(inf_in & ~np.isinf(e))[0])
        return "%s: an infinite input uncertainty at x=%r comes back as %r" % (nm, float(x[j]), float(e[j]))
    nan_in = pos & np.isnan(dy)
    if nan_in.any() and not np.isnan(e[nan_in]).all():
        return "%s: a NaN input uncertainty comes back as a number" % nm
    pos = pos & np.isfinite(dy)
    if pos.any():
        want = L.deriv(sp, a, b, x[pos], m) * dy[pos]
        bad = np.abs(e[pos] - want) > 1e-9 * (np.abs(want) + 1e-300)
        if bad.any():
            i = int(np.flatnonzero(bad)[0])
            return "%s: uncertainty %r at x=%r, first-order propagation gives %r" % (nm, float(e[pos][i]), float(x[pos][i]), float(want[i]))
        if (e[pos] < 0).any():
            return "%s: negative uncertainty" % nm
        y2 = np.array(case["y"], float) * -3.7 + 11.0
        _, e2 = L.call_conv(pystog, sp, a, b, x, y2, dy, m)
        if e2 is None or not np.array_equal(np.asarray(e2, float), e, equal_nan=True):
            return "%s: uncertainty changes when the function values change" % nm
        _, back = L.call_conv(pystog, sp, b, a, x[pos], np.array(case["y"], float)[pos], e[pos], m)
        if back is None or (np.abs(np.asarray(back, float) - dy[pos]) > 1e-9 * (np.abs(dy[pos]) + 1e-300)).any():
            return "%s then back: uncertainty not restored" % nm
    return None
