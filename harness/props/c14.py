"""C14 -- Lorch damping multiplies by sin(pi x/xmax)/(pi x/xmax), equal to 1 at x = 0."""
import math

import numpy as np

from . import ftlib as F

ID = "C14"
CHECKER = "chk_ft"
THEOREMS = ['C14_weight_at_0', 'C14_weight_zero_constant', 'C14_weight_formula', 'C14_weight_matches_fortran', 'C14_weight_bounded', 'C14_lorch_is_premultiplication', 'C14_constant_is_pi_over_largest_abscissa', 'C14_lorch_window_uses_largest_abscissa', 'C14_lorch_weight', 'C14_lorch_factor', 'C14_lorch_constant_undefined', 'C14_lorch_factor_zero_undefined', 'C14_fourier_transform']
RULE = ("fourier_transform(lorch=True) on grids with 0 first / in the middle (not for increasing grids) / absent, no window or a window whose "
        "upper limit is a grid point, run under heap histories (NaN / inf / 3.0 filled blocks of the relevant sizes freed just before the call); "
        "uniform grids additionally against the compiled Fortran window; non-trivial = some output non-zero; distinct by input hash")
FILLS = [float("nan"), float("inf"), 3.0]


def generate(rng, tier):
    n = 100 if tier == "quick" else 700
    cases = []
    for i in range(n):
        gk = ["uniform0", "uniform", "jitter", "nonuniform"][i % 4]
        if i % 8 == 7:      # abscissae not stored in ascending order: the constant is still pi / (largest abscissa)
            c = F.gen_ft_case(rng, tier, lorch=True, channel=2, win="none", unsorted=True)
            if max(c["xin"]) <= 0:
                c["xin"] = [v + 1.0 for v in c["xin"]]
        else:
            c = F.gen_ft_case(rng, tier, lorch=True, channel=2, win=("hi_grid" if i % 3 == 0 else "none"), grid_kind=gk)
        if i % 10 == 6 and min(c["xin"]) >= 0 and c["xmin"] is None:
            # a non-zero abscissa so small that pi/xmax times it underflows to zero: the weight there is 1, not 0/0
            rest = [v for v in c["xin"][1:] if v > 1e-300]
            if rest and max(rest) < 7.5 and c["xmax"] is None:          # pi/xmax below 1/2, so that (pi/xmax) * 5e-324 rounds to zero
                f_ = 7.5 / max(rest) * rng.uniform(1.0, 3.0)
                rest = [v * f_ for v in rest]
            c["xin"] = [rng.choice([5e-324, 1e-323, 2.5e-320])] + rest
            for key in ("yin", "dy"):
                if c[key] is not None:
                    c[key] = c[key][:len(c["xin"])]
            c["int_dtype"] = [False, c["int_dtype"][1], c["int_dtype"][2]]
            c["desc"]["grid"] = c["desc"]["grid"] + "+subnormal0"
        if i % 10 == 3 and c["xmin"] is None and c["xmax"] is None and len(c["xin"]) >= 4 and sorted(c["xin"]) == c["xin"]:
            # abscissae beyond -xmax: there the window sin(a x)/(a x) has its negative lobes
            top = max(c["xin"])
            if top > 0:
                c["xin"] = [v - 0.75 * top for v in c["xin"]]
                c["int_dtype"] = [False, c["int_dtype"][1], c["int_dtype"][2]]
                c["desc"]["grid"] = str(c["desc"]["grid"]) + "+beyond_minus_xmax"
        if i % 10 == 8 and c["xmin"] is None and c["xmax"] is None and len(c["xin"]) >= 3:
            # every abscissa negative (a curve given on the mirrored axis): the constant is still pi / (largest abscissa), the weight sin(ax)/(ax)
            top, low = max(c["xin"]), min(c["xin"])
            shift = top + 0.3 * (top - low) + 0.05
            c["xin"] = [v - shift for v in c["xin"]]
            c["int_dtype"] = [False, c["int_dtype"][1], c["int_dtype"][2]]
            c["desc"]["grid"] = str(c["desc"]["grid"]) + "+all_negative"
        c["poison"] = i % 3
        cases.append(c)
    # one long problem (10^4 input points x 500 output points) with uncertainties: whatever path a size-dependent implementation takes
    nbig, mbig = 10000, 500
    hb = 0.004
    xb = [i * hb for i in range(nbig)]
    big = {"xin": xb, "yin": [math.sin(1.3 * v) * math.exp(-0.05 * v) for v in xb], "xout": [0.05 * (j + 1) for j in range(mbig)],
           "xmin": None, "xmax": None, "dy": [0.01 + 0.001 * (i % 7) for i in range(nbig)], "lorch": True, "omitted": False, "channel": 2,
           "int_dtype": [False, False, False], "flagform": "bool", "poison": 0, "big": True,
           "desc": {"n": nbig, "m": mbig, "grid": "uniform0", "int_arrays": "000", "data": "smooth", "out": "uniform", "window": "none",
                    "dy": "pos", "zero_on_grid": True, "lorch": True, "omitted": False, "size": "10^4 x 500"}}
    cases.append(big)
    return cases


def run_impl(pystog, case):
    n = len(case["xin"])
    F.poison({n, len(case["xout"])} | set(range(max(1, n - 3), n + 1)), FILLS[case["poison"]])
    return F.run_ft(pystog, case)


def to_coq(case, res):
    if case.get("big"):      # too long for a Coq literal: this case is decided by the oracle alone
        return None
    return F.ft_to_coq(case, res)


nontrivial = F.nontrivial_ft


def oracle(pystog, case, res):
    """finite for finite input; bit-identical when repeated under a different heap fill; equal to the plain transform of
    data and uncertainties pre-multiplied by sin(ax)/(ax) (1 at x=0), a = pi/xmax, to 1e-9 of the L1 term magnitude"""
    if "exception" in res:
        return "raised %s: %s" % (res["exception"], res["message"])
    yo, eo = np.array(res["yout"]), np.array(res["eout"])
    if not (np.isfinite(yo).all() and np.isfinite(eo).all()):
        return "non-finite result for finite input (heap fill %r before the call)" % FILLS[case["poison"]]
    n = len(case["xin"])
    for fill in FILLS:
        F.poison({n, len(case["xout"])} | set(range(max(1, n - 3), n + 1)), fill)
        with F.poisoned_empty(fill):
            _, y2, e2 = F.call_ft(pystog, case)
        if not (np.array_equal(y2, yo) and np.array_equal(e2, eo)):
            return "result not reproducible: differs after heap fill %r" % fill
    # ... and whatever floating-point error handling the process switched on before the call (an honest weight at x = 0
    # is never computed as 0/0): division and invalid-operation errors raise, warnings are errors
    import warnings
    try:
        with np.errstate(divide="raise", invalid="raise"), warnings.catch_warnings():
            warnings.simplefilter("error")
            _, y4, e4 = F.call_ft(pystog, case)
    except Exception as ex:
        return "with floating-point errors set to raise before the call the Lorch transform raises %s: %s (x=0 on the grid: %s)" % (
            type(ex).__name__, str(ex)[:120], 0.0 in case["xin"])
    if not (np.array_equal(y4, yo) and np.array_equal(e4, eo)):
        return "result differs when floating-point errors are set to raise before the call"
    hi = case["xmax"] if case["xmax"] is not None else max(case["xin"])
    a = math.pi / hi
    w = [F.lorch_w(a, v) for v in case["xin"]]
    e = case["dy"] if case["dy"] is not None else [0.0] * n
    _, y3, e3 = F.call_ft(pystog, case, yin=[u * v for u, v in zip(w, case["yin"])], dy=[u * v for u, v in zip(w, e)], lorch=False)
    _, _, _, mag, emag = F.l1_scale(case)
    if (np.abs(y3 - yo) > 1e-9 * mag + 1e-300).any():
        return "Lorch transform differs from the plain transform of the pre-multiplied data"
    if (np.abs(e3 - eo) > 1e-9 * emag + 1e-300).any():
        return "Lorch uncertainty differs from the plain transform of the pre-multiplied uncertainties"
    return None
