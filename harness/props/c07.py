"""C07 -- transform uncertainties: conservative, homogeneous, value-independent."""
import math

import numpy as np

from . import ftlib as F

ID = "C07"
CHECKER = "chk_ft"
THEOREMS = ['C07_value_independent', 'C07_none_zero', 'C07_etrapz_weights', 'C07_eweights_nth', 'C07_tw_nth', 'C07_formula', 'C07_homogeneous', 'C07_monotone', 'C07_lower_bound', 'C07_upper_bound', 'C07_upper_bound_strict', 'C07_uniform_weights', 'C07_uniform_grid', 'C07_F_to_G_scaling', 'C07_F_to_G_value_independent', 'C07_F_to_G_none_zero', 'C07_F_to_G_homogeneous', 'C07_F_to_G_monotone']
RULE = ("fourier_transform / F_to_G / G_to_F third return value on strictly increasing grids, Lorch on and off, windows, uncertainties "
        "absent / zero / sparse / positive / large; non-trivial = some returned uncertainty non-zero; distinct by input hash")


def generate(rng, tier):
    n = 120 if tier == "quick" else 800
    cases = []
    for i in range(n):
        c = F.gen_ft_case(rng, tier, lorch=(i % 2 == 0), channel=1, win=("none" if i % 3 else None))
        if i % 15 == 7 and len(c["xin"]) >= 3:
            # a dead sample (NaN / infinite) among the data: the uncertainty does not depend on the data values
            c["yin"] = list(c["yin"])
            c["yin"][len(c["yin"]) // 2] = float("nan") if (i // 15) % 2 else float("inf")
            if (i // 15) % 3 == 0:
                c["dy"] = None
                c["desc"]["dy"] = "none"
            c["int_dtype"] = [c["int_dtype"][0], False, c["int_dtype"][2]]
            c["desc"]["data"] = str(c["desc"]["data"]) + "+nonfinite sample"
        if i % 10 == 4 and len(c["xin"]) >= 3 and sorted(c["xin"]) == c["xin"] and all(v == v for v in c["yin"]):
            # with the omitted-range correction on: it is a term of the values only, the uncertainties are those of the quadrature
            sh = 0.4 - min(c["xin"]) if min(c["xin"]) < 0.4 else 0.0
            c["xin"] = [v + sh for v in c["xin"]]
            c["xmin"] = None if c["xmin"] is None else c["xmin"] + sh
            c["xmax"] = None if c["xmax"] is None else c["xmax"] + sh
            lo_ = c["xmin"] if c["xmin"] is not None else min(c["xin"])
            hi_ = c["xmax"] if c["xmax"] is not None else max(c["xin"])
            if any(lo_ <= v <= hi_ for v in c["xin"]):
                c["omitted"] = True
                c["desc"]["omitted"] = True
                c["xout"] = [abs(v) + 0.05 for v in c["xout"]]
                c["int_dtype"] = [False, c["int_dtype"][1], False]
                if c["lorch"] and (i // 10) % 2:
                    c["lorch"] = False
                    c["desc"]["lorch"] = False
                if c["dy"] is not None:      # the first kept point carries a sizeable uncertainty
                    c["dy"] = [abs(v) + 0.05 for v in c["dy"]]
        cases.append(c)
    return cases


def run_impl(pystog, case):
    res = F.run_ft(pystog, case)
    if case["xmin"] is None and case["xmax"] is None:
        tr = pystog.Transformer()
        kw = {"lorch": True} if case["lorch"] else {}
        d = None if case["dy"] is None else np.array(case["dy"], float)
        _, _, e1 = tr.F_to_G(np.array(case["xin"], float), np.array(case["yin"], float), np.array(case["xout"], float), d, **kw)
        _, _, e2 = tr.G_to_F(np.array(case["xin"], float), np.array(case["yin"], float), np.array(case["xout"], float), d, **kw)
        res["F_to_G_unc"] = np.asarray(e1, float).tolist()
        res["G_to_F_unc"] = np.asarray(e2, float).tolist()
        if d is not None and len(case["xin"]) >= 3:
            # a converting transform on abscissae of both signs (dF = Q dS is negative below zero; only its square matters)
            sh = case["xin"][len(case["xin"]) // 2] + 0.0137
            xs = np.array(case["xin"], float) - sh
            _, _, e5 = tr.S_to_G(xs, np.array(case["yin"], float), np.array(case["xout"], float), d, **kw)
            res["S_to_G_unc_shifted"] = np.asarray(e5, float).tolist()
            res["shift"] = sh
    return res


to_coq = F.ft_to_coq


def nontrivial(case, res):
    return "exception" not in res and any(v != 0 for v in res["eout"])


def oracle(pystog, case, res):
    """third return value: unchanged when the data values change (bit-identical); zeros when no uncertainty given; c*e -> c*eout;
    grows when any e_j grows; sigma <= eout <= sqrt(2) sigma with sigma the exact uncorrelated propagation through the trapezoid
    weights (pure-Python reference); F_to_G = 2/pi times it, G_to_F = it"""
    if "exception" in res:
        return "raised %s: %s" % (res["exception"], res["message"])
    eo = np.array(res["eout"])
    n = len(case["xin"])
    y2 = [3.0 - 2.5 * v + 0.7 * i for i, v in enumerate(case["yin"])]
    _, _, e2 = F.call_ft(pystog, case, yin=y2)
    if not np.array_equal(e2, eo):
        return "uncertainty changes with the data values"
    _, _, e0 = F.call_ft(pystog, case, yin=[0.0] * n)       # a signal that vanishes identically still has its uncertainties
    if not np.array_equal(e0, eo):
        return "uncertainty changes when the data values are all zero"
    if case["dy"] is None:
        return "uncertainty not zero although none was given" if (eo != 0).any() else None
    if (eo < 0).any() or not np.isfinite(eo).all():
        return "negative or non-finite uncertainty"
    xc, yc, ec, mag, emag = F.l1_scale(case)
    c = 3.25
    _, _, e3 = F.call_ft(pystog, case, dy=[c * v for v in case["dy"]])
    if (np.abs(e3 - c * eo) > 1e-9 * c * emag + 1e-300).any():
        return "uncertainty not homogeneous of degree 1 in the input uncertainties"
    bump = [v * (1.5 if i % 2 else 1.0) + (0.1 if i % 3 == 0 else 0.0) for i, v in enumerate(case["dy"])]
    _, _, e4 = F.call_ft(pystog, case, dy=bump)
    if (e4 < eo - 1e-9 * emag - 1e-300).any():
        return "uncertainty decreased although every input uncertainty grew"
    m = len(xc)
    if m >= 2:
        W = [(xc[1] - xc[0]) / 2] + [(xc[j + 1] - xc[j - 1]) / 2 for j in range(1, m - 1)] + [(xc[-1] - xc[-2]) / 2]
        for xp, v in zip(case["xout"], eo):
            sig = math.sqrt(math.fsum((W[j] * ec[j] * math.sin(xc[j] * xp)) ** 2 for j in range(m)))
            if v < sig - 1e-9 * emag - 1e-300:
                return "uncertainty %r below exact uncorrelated propagation %r at x'=%r" % (float(v), sig, xp)
            if v > math.sqrt(2) * sig + 1e-9 * emag + 1e-300:
                return "uncertainty %r above sqrt(2) x exact propagation %r at x'=%r" % (float(v), sig, xp)
    if "S_to_G_unc_shifted" in res and not case["lorch"]:
        xs = [v - res["shift"] for v in case["xin"]]
        mm = len(xs)
        Ws = [(xs[1] - xs[0]) / 2] + [(xs[j + 1] - xs[j - 1]) / 2 for j in range(1, mm - 1)] + [(xs[-1] - xs[-2]) / 2]
        es = [abs(xs[j]) * case["dy"][j] for j in range(mm)]
        smag = math.sqrt(sum((xs[j + 1] - xs[j]) ** 2 * (es[j + 1] ** 2 + es[j] ** 2) / 2 for j in range(mm - 1))) * 2 / math.pi
        for xp, v5 in zip(case["xout"], res["S_to_G_unc_shifted"]):
            sig = 2 / math.pi * math.sqrt(math.fsum((Ws[j] * es[j] * math.sin(xs[j] * xp)) ** 2 for j in range(mm)))
            if v5 < sig - 1e-9 * smag - 1e-300:
                return "S_to_G on abscissae of both signs: uncertainty %r below exact uncorrelated propagation %r at r=%r" % (float(v5), sig, xp)
            if v5 > math.sqrt(2) * sig + 1e-9 * smag + 1e-300:
                return "S_to_G on abscissae of both signs: uncertainty %r above sqrt(2) x exact propagation %r at r=%r" % (float(v5), sig, xp)
    if "F_to_G_unc" in res:
        if (np.abs(np.array(res["F_to_G_unc"]) - eo * 2 / math.pi) > 1e-9 * emag + 1e-300).any():
            return "F_to_G uncertainty is not 2/pi times the core uncertainty"
        if (np.abs(np.array(res["G_to_F_unc"]) - eo) > 1e-9 * emag + 1e-300).any():
            return "G_to_F uncertainty is not the core uncertainty"
    return None
