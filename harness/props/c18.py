"""C18 -- every written curve reads back as the curve that was in memory."""
import math
import os
import shutil

import numpy as np

import common as C  # noqa: E402
from . import stoglib as SL

ID = "C18"
CHECKER = "chk_codec"
THEOREMS = ['C18_header_count_eq_rows', 'C18_read_write_shape', 'C18_parse_field_render12', 'C18_read_values_same_length', 'C18_printed_decimal_within_5e13', 'C18_parse_is_nearest_double', 'C18_roundtrip_bound', 'C18_roundtrip_exact_when_coarse', 'C18_literal_5e13_refuted', 'C18_excess_at_most_half_ulp', 'C18_reingest_grid_exact']
RULE = ("curves of length 1..40 (and 0) with values of either sign, magnitudes 1e-14..1e6, values on and next to 12th-decimal ties, the 0.01 grid, "
        "-0.0, through all eight writer methods with default and explicit file names and several stem names; the file bytes are compared with the "
        "model's writer and np.loadtxt's result with the model's reader (both exact); non-trivial = at least one non-zero value; distinct by input hash")
WRITERS = [  # method, which master dicts, title attribute, default suffix
    ("write_out_merged_sq", "q", "sq_title", "{stem}.sq"),
    ("write_out_merged_gr", "r", "gr_title", "{stem}.gr"),
    ("write_out_ft", "q", "_ft_title", "ft.dat"),
    ("write_out_ft_sq", "q", "sq_ft_title", "{stem}_ft.sq"),
    ("write_out_ft_gr", "r", "gr_ft_title", "{stem}_ft.gr"),
    ("write_out_lorched_gr", "r", "gr_lorch_title", "{stem}_ft_lorched.gr"),
    ("write_out_rmc_fq", "q", "fq_title", "{stem}_rmc.fq"),
    ("write_out_rmc_gr", "r", "GKofR_title", "{stem}_rmc.gr"),
]
TIES = [float.fromhex("0x1.9f93b119869a8p+0"), float.fromhex("0x1.b0ffa3bab6c39p+12"), 0.5e-12, 1.5e-12, 2.5e-12, 1e-13, -1e-20, -0.0, 0.0,
        999999.9999999995, 8191.99, 8192.01, 0.1, 0.3, 123456.789]


def value(rng):
    k = rng.random()
    if k < 0.25:
        return rng.sgn() * rng.logu(1e-14, 1e6)
    if k < 0.45:
        return round(rng.uniform(-50, 50), 2)
    if k < 0.6:
        n = rng.randint(-10 ** 9, 10 ** 9)
        return (n + 0.5) * 1e-12 * rng.choice([1, 1, 1000, 10 ** 6])
    if k < 0.7:
        return rng.choice(TIES) * rng.choice([1, -1])
    return rng.uniform(-1e6, 1e6) if k < 0.8 else rng.uniform(-3, 3)


def generate(rng, tier):
    n = 60 if tier == "quick" else 500
    cases = []
    for i in range(n):
        m = rng.choice([1, 2, 3, rng.randint(1, 40)])
        if i % 20 == 13:
            m = 0        # a curve with no point at all: header "0", comment line, no rows
        x = [value(rng) for _ in range(m)]
        y = [value(rng) for _ in range(m)]
        if i % 10 == 0:
            x = sorted(round(0.01 * rng.randint(1, 3000), 2) for _ in range(m))
        w = i % 8
        if i % 20 == 6 and m >= 2:
            # an undefined ordinate (NaN / infinite) in the stored curve: every point is still written, one row each
            y[m // 2] = float("nan") if (i // 20) % 2 == 0 else float("inf")
            w = 6 + (i // 20) % 2 if (i // 40) % 2 == 0 else w
        cases.append({"x": x, "y": y, "writer": w, "explicit": bool((i // 8) % 2), "stem": rng.choice(["out", "merged", "a_b.c", "s1", "sub/run7"]),
                      "fn": i % 3, "over_longer": i % 3 == 1,
                      "desc": {"writer": WRITERS[w][0], "explicit_name": bool((i // 8) % 2), "n": m, "grid_x": i % 10 == 0,
                               "replaces_a_longer_file": i % 3 == 1}})
    # one long curve per writer family (more rows than any buffer a writer might use): r up to 100 in steps of 0.01
    for w in (1, 0) if tier == "quick" else range(8):
        m = 10001 + w
        cases.append({"x": [0.01 * j for j in range(m)], "y": [math.sin(0.013 * j) * (1.0 + 1e-4 * j) for j in range(m)], "writer": w, "explicit": bool(w % 2),
                      "stem": "long", "fn": w % 3, "over_longer": False, "long": True,
                      "desc": {"writer": WRITERS[w][0], "explicit_name": bool(w % 2), "n": m, "grid_x": True, "replaces_a_longer_file": False}})
    # files written as a side effect of the workflow steps (fourier_filter, apply_lorch, the Keen outputs): each must read back as the curve
    # the instance holds under the corresponding title
    for i in range(3 if tier == "quick" else 18):
        nq = 6 + 3 * (i % 4)
        q = [round(0.3 + 0.1 * j, 2) for j in range(nq)]
        cases.append({"implicit": True, "q": q, "sq": [1.0 + math.sin(3.0 * v) * math.exp(-v / 3.0) + 0.01 * ((7 * j + i) % 5) for j, v in enumerate(q)],
                      "dr": [0.05 * (j + (i % 2)) for j in range(8 + i % 5)], "mat": {"rho": 0.02 + 0.01 * i, "bcoh": 1.5 + 0.5 * (i % 3), "btot": 2.0 + i},
                      "fn": i % 3, "lowq": bool(i % 2), "cutoff": 0.2 + 0.05 * (i % 3), "lorch_flag": False, "gq": None, "stem": ["run", "a_b.c", "x1"][i % 3],
                      "desc": {"writer": "workflow side effects", "fn": SL.FNS[i % 3], "n": nq}})
    # re-ingestion of a written merged S(Q)
    for i in range(4 if tier == "quick" else 30):
        cfg = SL.gen_config(rng, global_window=False)
        ds = [SL.finish_dataset(SL.gen_dataset(rng, "quick", kind=0, offsets=False), cfg["mat"]) for _ in range(rng.choice([1, 2]))]
        if i % 2 == 0 and len(ds) == 1:      # (every other case has two banks: its Files entry is one that has been read before)
            ds.append(SL.finish_dataset(SL.gen_dataset(rng, "quick", kind=0, offsets=False), cfg["mat"]))
        for d in ds:
            d["x"] = [abs(v) + 0.05 for v in d["x"]]
            d["Qmin"] = d["Qmax"] = None        # keep every row: an empty merge has nothing to write
        cases.append({"reingest": True, "cfg": cfg, "datasets": ds, "desc": {"writer": "reingest", "n_datasets": len(ds)}})
    return cases


def run_impl(pystog, case):
    d = os.path.join(C.SCRATCH, "c18_%s" % C.case_hash(case))
    shutil.rmtree(d, ignore_errors=True)
    os.makedirs(d)
    cwd = os.getcwd()
    os.chdir(d)
    try:
        if case.get("reingest"):
            st, _ = SL.run_sequence(pystog, case["cfg"], case["datasets"])
            st.merge_data()
            st.write_out_merged_sq("m.sq")
            q, sq = np.asarray(st.q_master[st.sq_title], float), np.asarray(st.sq_master[st.sq_title], float)
            st2 = pystog.StoG(**SL.stog_kwargs(case["cfg"]))
            entry = {"Filename": "m.sq", "ReciprocalFunction": "S(Q)"}
            if len(case["datasets"]) % 2 == 0:
                # the same Files entry has served before, when the name held an older, shorter output: reading it again reads the file again
                os.replace("m.sq", "m_new.sq")
                with open("m.sq", "w") as fh:
                    fh.write("2\n# an older run\n0.500000000000 1.250000000000\n0.600000000000 0.750000000000\n")
                pystog.StoG(**SL.stog_kwargs(case["cfg"])).read_dataset(entry)
                os.replace("m_new.sq", "m.sq")
            st2.read_dataset(entry)
            st2.merge_data()
            q2, sq2 = np.asarray(st2.q_master[st2.sq_title], float), np.asarray(st2.sq_master[st2.sq_title], float)
            text = open("m.sq", "rb").read()
            rx, ry = np.loadtxt("m.sq", skiprows=2, comments="#", unpack=True, ndmin=2)
            return {"x": q.tolist(), "y": sq.tolist(), "bytes": list(text), "rx": rx.tolist(), "ry": ry.tolist(),
                    "q2": q2.tolist(), "sq2": sq2.tolist()}
        if case.get("implicit"):
            from . import c12 as W
            st = W.make_stog(pystog, case)
            st.stem_name = case["stem"]
            st.transform_merged()
            qf, sqf, rf, gf = st.fourier_filter()
            rl, gl = st.apply_lorch(qf, sqf, rf)
            st._add_keen_fq(qf, sqf)
            st._add_keen_gr(rl, gl)
            files = sorted(os.path.relpath(os.path.join(dp, f), ".") for dp, _, fs in os.walk(".") for f in fs)
            parts = []
            for _, dom, title_attr, default in WRITERS[2:]:
                fn_ = default.format(stem=case["stem"])
                title = getattr(st, title_attr)
                xs_ = np.asarray((st.q_master if dom == "q" else st.r_master)[title], float)
                ys_ = np.asarray((st.sq_master if dom == "q" else st.gr_master)[title], float)
                text = open(fn_, "rb").read() if os.path.exists(fn_) else b""
                rx, ry = np.loadtxt(fn_, skiprows=2, comments="#", unpack=True, ndmin=2) if text else (np.array([]), np.array([]))
                parts.append({"file": fn_, "x": xs_.tolist(), "y": ys_.tolist(), "bytes": list(text), "rx": np.asarray(rx, float).tolist(),
                              "ry": np.asarray(ry, float).tolist()})
            return {"implicit": parts, "files": files, "y": [v for p_ in parts for v in p_["y"]]}
        name, dom, title_attr, default = WRITERS[case["writer"]]
        st = pystog.StoG(**{"RealSpaceFunction": SL.FNS[case["fn"]], "Outputs": {"StemName": case["stem"]}})
        title = getattr(st, title_attr)
        (st.q_master if dom == "q" else st.r_master)[title] = np.array(case["x"], float)
        (st.sq_master if dom == "q" else st.gr_master)[title] = np.array(case["y"], float)
        fname = "explicit_%d.dat" % case["writer"] if case["explicit"] else None
        if os.path.dirname(case["stem"]):       # a stem that names a directory: the stem-based files go there, "ft.dat" stays where it is documented
            os.makedirs(os.path.dirname(case["stem"]), exist_ok=True)
        if case.get("over_longer"):
            # the same name was written before, from a longer curve (an earlier run in this directory): the new file replaces it
            nx = len(case["x"]) + 6
            (st.q_master if dom == "q" else st.r_master)[title] = np.array([123456.123456 + j for j in range(nx)], float)
            (st.sq_master if dom == "q" else st.gr_master)[title] = np.array([-98765.4321 - j for j in range(nx)], float)
            getattr(st, name)(fname) if fname else getattr(st, name)()
            (st.q_master if dom == "q" else st.r_master)[title] = np.array(case["x"], float)
            (st.sq_master if dom == "q" else st.gr_master)[title] = np.array(case["y"], float)
        getattr(st, name)(fname) if fname else getattr(st, name)()
        expect = fname or default.format(stem=case["stem"])
        files = sorted(os.path.relpath(os.path.join(dp, f), ".") for dp, _, fs in os.walk(".") for f in fs)
        text = open(expect, "rb").read() if os.path.exists(expect) else b""
        if text and len(case["x"]) == 0 and text.count(b"\n") <= 2:
            rx, ry = np.array([]), np.array([])       # only the two header lines: nothing to parse
        else:
            rx, ry = np.loadtxt(expect, skiprows=2, comments="#", unpack=True, ndmin=2) if text else (np.array([]), np.array([]))
        return {"x": case["x"], "y": case["y"], "bytes": list(text), "files": files, "expect": expect, "rx": np.asarray(rx, float).tolist(), "ry": np.asarray(ry, float).tolist()}
    finally:
        os.chdir(cwd)
        shutil.rmtree(d, ignore_errors=True)


def to_coq(case, res):
    if "exception" not in res and case.get("implicit"):
        return [("chk_codec", ([p_["x"], p_["y"], p_["rx"], p_["ry"]], [], p_["bytes"], [])) for p_ in res["implicit"]
                if p_["bytes"] and p_["x"] and all(v == v and abs(v) != float("inf") for v in p_["y"])]
    if "exception" in res or case.get("long") or not res.get("bytes") or len(res.get("x", [])) == 0 or any(v != v or abs(v) == float("inf") for v in res.get("y", [])):      # (an empty curve: header only, decided by the oracle)
        return None
    return ([res["x"], res["y"], res["rx"], res["ry"]], [], res["bytes"], [])


def nontrivial(case, res):
    return "exception" not in res and any(v != 0 for v in res.get("y", []))


def ulp(v):
    return math.ulp(v)


def oracle(pystog, case, res):
    """first line = number of data rows (and a space), second line a comment, then exactly that many rows; np.loadtxt(skiprows=2) returns
    every stored x and y within 5e-13 absolute; the default file name is <stem><suffix>; a written merged S(Q) read back as a dataset
    and merged reproduces the grid exactly and the values within 5e-13"""
    if "exception" in res:
        return "raised %s: %s" % (res["exception"], res["message"])
    if case.get("implicit"):
        want = sorted(p_["file"] for p_ in res["implicit"])
        if res["files"] != want:
            return "the workflow steps wrote %r, expected %r" % (res["files"], want)
        worst = None
        for p_ in res["implicit"]:
            msg = check_file({}, p_)
            if msg and msg.startswith("literal 5e-13"):
                worst = worst or msg
            elif msg:
                return "%s (written by a workflow step): %s" % (p_["file"], msg)
        return worst
    if not case.get("reingest"):
        if res["files"] != [res["expect"]]:
            return "%s wrote %r, expected the single file %r" % (WRITERS[case["writer"]][0], res["files"], res["expect"])
    return check_file(case, res)


def check_file(case, res):
    text = bytes(res["bytes"]).decode("latin1")
    lines = text.split("\n")
    if lines[-1] != "":
        return "file does not end with a newline"
    lines = lines[:-1]
    n = len(res["x"])
    if len(lines) < 2 or lines[0].strip() != str(n) or not lines[1].startswith("#"):
        return "header is not '<number of rows>' + a comment line: %r" % lines[:2]
    if len(lines) - 2 != n:
        return "header announces %d rows, file has %d" % (n, len(lines) - 2)
    worst = None
    for name, a, b in (("x", res["x"], res["rx"]), ("y", res["y"], res["ry"])):
        if len(a) != len(b):
            return "read back %d %s values, %d were stored" % (len(b), name, len(a))
        for u, v in zip(a, b):
            err = abs(u - v)
            if err > 5e-13:
                if err <= 5e-13 + ulp(v) / 2 * (1 + 1e-12):
                    worst = worst or (name, u, v, err)
                else:
                    return "%s value %r reads back as %r: off by %.3g > 5e-13 + half an ulp" % (name, u, v, err)
    if case.get("reingest"):
        q, sq, q2, sq2 = map(np.array, (res["x"], res["y"], res["q2"], res["sq2"]))
        if not np.array_equal(q, q2):
            return "re-ingested merged grid differs from the written one"
        if (np.abs(sq - sq2) > 5e-13 + np.array([ulp(v) / 2 for v in sq2])).any():
            return "re-ingested merged values differ by more than 5e-13 (+ half ulp)"
    if worst:
        return "literal 5e-13 exceeded within half an ulp: %s value %r reads back as %r (off by %.6g; 12-decimal tie)" % worst
    return None


def known_match(case, res, msg, finding):
    return finding.get("id") == "K-C18-half-ulp" and msg.startswith("literal 5e-13 exceeded within half an ulp")
