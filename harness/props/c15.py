"""C15 -- omitted low-Q correction equals the transform of the assumed linear-to-zero S(Q)."""
import math
import os
import sys

import numpy as np

from . import convlib as L
from . import ftlib as F

sys.path.insert(0, os.path.dirname(os.path.dirname(os.path.abspath(__file__))))

ID = "C15"
CHECKER = "chk_named"
THEOREMS = ['C15_term_is_integral_plain', 'C15_term_is_integral_lorch', 'C15_term_is_integral_lorch_window', 'C15_added_term_in_F_to_G', 'C15_zero_when_Qmin_0', 'C15_zero_at_r0_plain', 'C15_zero_at_r0_lorch', 'C15_depends_only_on_Qmin_S0_Qmax']
RULE = ("all 4 reciprocal inputs x 3 real outputs x Lorch on/off with OmittedXrangeCorrection, Qmin>0 (and Qmin=0), r grids incl. 0; "
        "the difference between the corrected and uncorrected transform is compared with a 200-point Gauss-Legendre integral of the "
        "linear-to-zero model; uniform grids also against the compiled Fortran stog_bit; non-trivial = correction term non-zero; "
        "distinct by input hash")
_GL = np.polynomial.legendre.leggauss(200)


def generate(rng, tier):
    reps = 2 if tier == "quick" else 12
    cases = []
    for rep in range(reps):
        for X in range(4):
            for Y in range(3):
                for lorch in (False, True):
                    c = F.gen_named_case(rng, "quick", 0, X, Y, lorch=lorch, omitted=True, channel=0, positive=(rep % 4 != 3))
                    if rep % 4 == 1 and (X + Y) % 3 == 0:     # r grid starting exactly at 0: the term must vanish there
                        c["xout"] = [0.0] + [abs(v) + 0.01 for v in c["xout"]]
                        c["desc"]["r0_on_grid"] = True
                    if rep % 4 == 3:  # Qmin = 0 and r grid starting at 0: the term must vanish / be 0 at r = 0
                        if rep % 8 == 3:
                            c["xin"] = [v - c["xin"][0] for v in c["xin"]]
                        c["xout"] = [0.0] + [abs(v) + 0.01 for v in c["xout"]]
                    if rep % 2 == 0:  # uniform grid: Fortran comparable
                        h = rng.logu(0.02, 0.2)
                        q0 = rng.logu(0.1, 1.5)
                        c["xin"] = [q0 + i * h for i in range(len(c["xin"]))]
                        dr = rng.logu(0.02, 0.3)
                        c["xout"] = [dr * (i + 1) for i in range(len(c["xout"]))]
                        c["desc"]["fortran"] = True
                    if rep % 4 == 1:  # an integer-valued (and integer-typed) r grid
                        c["xout"] = [float(i + (0 if c["desc"].get("r0_on_grid") else 1)) for i in range(len(c["xout"]))]
                        c["int_dtype"] = [False, False, True]
                        c["desc"]["int_r_grid"] = True
                        c["desc"].pop("fortran", None)
                    if Y == 1 and (X + rep) % 2 == 0 and not c["desc"].get("int_r_grid"):   # G(r) on a grid with negative abscissae too
                        c["xout"] = [(-1) ** (j + 1) * (1.0 + 1.7 * j + 0.1 * abs(v)) for j, v in enumerate(c["xout"])]   # the first point is negative
                        c["desc"]["negative_r"] = True
                        c["desc"].pop("fortran", None)
                    if Y == 1 and (X + rep) % 2 == 1:
                        # G(r) on a grid that passes through r = 0 somewhere in the middle (symmetric, or descending to 0): the term is 0 there
                        k = max(1, len(c["xout"]) // 2)
                        pos_ = [0.13 + 0.31 * j for j in range(k)]
                        c["xout"] = ([-v for v in reversed(pos_)] + [0.0] + pos_) if rep % 4 < 2 else (list(reversed(pos_)) + [0.0])
                        c["int_dtype"] = [c["int_dtype"][0], c["int_dtype"][1], False]
                        c["desc"]["r0_in_the_middle"] = True
                        for flag in ("fortran", "int_r_grid", "negative_r", "r0_on_grid"):
                            c["desc"].pop(flag, None)
                    if (X + Y + rep) % 3 == 1 and c["xin"][0] > 0 and len(c["xin"]) >= 4 and sorted(c["xin"]) == c["xin"]:
                        # a lower limit given as keyword: Qmin of the correction is the first point actually transformed, not the keyword
                        xs_ = c["xin"]
                        c["xmin"] = [0.5 * xs_[0], 0.6 * xs_[1] + 0.4 * xs_[2], xs_[1], 0.0][(X + 2 * Y + rep) % 4]
                        c["desc"]["window"] = "lower limit keyword"
                        c["desc"].pop("fortran", None)
                    if (X + Y + rep) % 3 == 2 and c["xin"][0] > 0 and c.get("xmin") is None and X in (0, 1, 2):
                        # S(Qmin) exactly 0 (an S(Q) zero-padded below the measured range): the model is S = 0 on [0, Qmin], its term is not zero
                        c["yin"] = list(c["yin"])
                        c["yin"][0] = [0.0, -c["xin"][0], -c["mat"]["bcoh"]][X]
                        c["int_dtype"] = [c["int_dtype"][0], False, c["int_dtype"][2]]
                        c["desc"]["S_at_Qmin"] = "exactly 0"
                    # physical-looking S(Q): positive at Qmin
                    c["desc"]["Qmin0"] = c["xin"][0] == 0.0
                    cases.append(c)
    # r grids reaching far out (Qmin*r up to about 100: many oscillations of sin(Qr) inside the omitted range), plain and Lorch
    for k, (X, Y, lorch) in enumerate([(0, 1, False), (1, 0, True), (2, 2, False), (3, 1, True)]):
        c = F.gen_named_case(rng, "quick", 0, X, Y, lorch=lorch, omitted=True, channel=0, positive=True)
        nq = max(6, min(len(c["xin"]), 30))
        c["xin"] = [1.5 + 0.11 * j for j in range(nq)]
        c["yin"] = [float(v) for v in L.from_base(0, X, np.array(c["xin"]), 1.0 + 0.5 * np.cos(1.3 * np.array(c["xin"])), c["mat"])]
        c["dy"] = None if c["dy"] is None else [0.01] * nq
        c["xout"] = [0.35 + 0.7 * j for j in range(100)]
        c["int_dtype"] = [False, False, False]
        c["xmin"] = c["xmax"] = None
        c["desc"].update({"n": nq, "m": 100, "far_out_r": True, "Qmin0": False})
        c["desc"].pop("fortran", None)
        cases.append(c)
    # one long problem (2500 Q points x 2500 r points): whatever path a size-dependent implementation takes
    nb = 2500
    qb = [0.4 + 0.012 * j for j in range(nb)]
    big = {"dir": 0, "X": 0, "Y": 1, "xin": qb, "yin": [1.0 + 0.4 * math.sin(1.1 * v) * math.exp(-0.08 * v) for v in qb],
           "xout": [0.05 + 0.01 * j for j in range(nb)], "dy": None, "mat": L.material(rng), "lorch": False, "omitted": True, "channel": 0,
           "int_dtype": [False, False, False], "xmin": None, "xmax": None, "flagform": "bool", "callform": "pos", "big": True,
           "desc": {"method": "S_to_G", "n": nb, "m": nb, "grid": "uniform", "data": "smooth", "int_arrays": "000", "out": "uniform", "dy": "none",
                    "lorch": False, "omitted": True, "zero_on_grid": False, "Qmin0": False, "size": "2500 x 2500"}}
    cases.append(big)
    return cases


def run_impl(pystog, case):
    # uninitialised buffers are handed out pre-filled: a slot that is read without having been written shows up
    with F.poisoned_empty(7.0):
        return F.run_named(pystog, case)


def to_coq(case, res):
    if case.get("big"):      # too long for a Coq literal: decided by the oracle alone
        return None
    return F.named_to_coq(case, res)


def nontrivial(case, res):
    return "exception" not in res and case["xin"][0] > 0


def to_F(case):
    x = np.array(case["xin"], float)
    y = np.array(case["yin"], float)
    m = case["mat"]
    return L.from_base(0, 1, x, L.to_base(0, case["X"], x, y, m), m)


def model_term(qmin, s0, qmax, r, lorch):
    """(2/pi) Int_0^Qmin Q (S0 Q/Qmin - 1) W(Q) sin(Q r) dQ, W = sin(aQ)/(aQ), a = pi/Qmax, by Gauss-Legendre"""
    t, w = _GL
    q = 0.5 * qmin * (t + 1)
    wq = 0.5 * qmin * w
    f = q * (s0 * q / qmin - 1.0) * np.sin(q * r)
    if lorch:
        a = math.pi / qmax
        f = f * np.sinc(a * q / math.pi)
    return 2 / math.pi * float(np.sum(wq * f))


def cancel_mag(qmin, s0, qmax, ri, lorch):
    """magnitude of the terms the closed forms subtract from each other (they cancel catastrophically for small Qmin*r: rounding, not the property)"""
    v = qmin * ri
    if lorch:
        a = math.pi / qmax
        return ((abs(qmin * (ri - a)) + 2) / (ri - a) ** 2 + (abs(qmin * (ri + a)) + 2) / (ri + a) ** 2) / (2 * a) * abs(s0) / qmin \
            + (1 / abs(ri - a) + 1 / abs(ri + a)) / (2 * a)
    return (2 * abs(v) + abs(v * v - 2) + 2) / abs(ri) ** 3 * abs(s0) / qmin + (1 + abs(v)) / ri ** 2


def oracle(pystog, case, res):
    """(corrected - uncorrected) G(r), after converting the output back to G(r), equals (2/pi) Int_0^Qmin Q[S_lin(Q)-1] W(Q) sin(Qr) dQ
    (Gauss-Legendre, 1e-7 relative to the term's magnitude); zero when Qmin = 0; zero at r = 0; unchanged when interior data change;
    uniform grids: g(r) equals the compiled Fortran stog_bit output"""
    if "exception" in res:
        return "raised %s: %s" % (res["exception"], res["message"])
    m = case["mat"]
    with F.poisoned_empty(7.0):
        _, y_on, _ = F.call_named(pystog, case)
        _, y_off, _ = F.call_named(pystog, case, omitted=False)
    r = np.array(case["xout"], float)
    # back to G(r) (affine, exact enough): difference of outputs -> difference in G
    Yn = L.GN[case["Y"]]
    with np.errstate(all="ignore"):
        if Yn == "g":
            dG = (y_on - y_off) * 4 * math.pi * m["rho"] * r
        elif Yn == "GK":
            dG = (y_on - y_off) * 4 * math.pi * m["rho"] * r / m["bcoh"]
        else:
            dG = y_on - y_off
    f = to_F(case)
    lo_kw = case.get("xmin")
    k0 = 0 if lo_kw is None else min(i for i, v in enumerate(case["xin"]) if v >= lo_kw)
    f = f[k0:]
    xin_k = case["xin"][k0:]
    qmin, qmax = xin_k[0], xin_k[-1]
    if qmin == 0.0:
        if not np.array_equal(y_on, y_off):
            return "correction not zero although Qmin = 0"
        return None
    s0 = f[0] / qmin + 1.0
    _, _, _, mag, _ = F.l1_scale({"xin": xin_k, "yin": f.tolist(), "dy": None, "xmin": None, "xmax": None, "lorch": case["lorch"]})
    for ri, d, a, b in zip(r, dG, y_on, y_off):
        if ri == 0:
            if a != b:
                return "correction does not vanish at r = 0"
            continue
        if case["lorch"] and min(abs(ri - math.pi / qmax), abs(ri + math.pi / qmax)) < 1e-3:
            continue
        want = model_term(qmin, s0, qmax, ri, case["lorch"])
        scale = abs(want) + (abs(s0) + 1) * qmin * qmin * 1e-2 + 1e-6 * mag * 2 / math.pi
        # the closed forms cancel catastrophically for small Qmin*r: magnitude of the terms that are subtracted (rounding, not the property)
        v = qmin * ri
        if case["lorch"]:
            a = math.pi / qmax
            tm = ((abs(qmin * (ri - a)) + 2) / (ri - a) ** 2 + (abs(qmin * (ri + a)) + 2) / (ri + a) ** 2) / (2 * a) * abs(s0) / qmin \
                + (1 / abs(ri - a) + 1 / abs(ri + a)) / (2 * a)
        else:
            tm = (2 * abs(v) + abs(v * v - 2) + 2) / abs(ri) ** 3 * abs(s0) / qmin + (1 + abs(v)) / ri ** 2
        if abs(d - want) > 1e-7 * scale + 1e-9 * mag + 4e-15 * tm:
            return "added term %r at r=%r, integral of the linear-to-zero model gives %r (Qmin=%r S(Qmin)=%r lorch=%s)" % (float(d), float(ri), want, qmin, float(s0), case["lorch"])
    # depends on the data only through Qmin, S(Qmin), Qmax
    if len(case["yin"]) > 2:
        y2 = list(case["yin"])
        for i in range(k0 + 1, len(y2) - 1):
            y2[i] = y2[i] * 0.5 + 0.25
        _, a2, _ = F.call_named(pystog, case, yin=y2)
        _, b2, _ = F.call_named(pystog, case, yin=y2, omitted=False)
        f2 = to_F(dict(case, yin=y2))[k0:]
        _, _, _, mag2, _ = F.l1_scale({"xin": xin_k, "yin": f2.tolist(), "dy": None, "xmin": None, "xmax": None, "lorch": case["lorch"]})
        with np.errstate(all="ignore"):
            d1, d2 = (y_on - y_off), (a2 - b2)
            conv = {"g": 4 * math.pi * m["rho"] * r, "GK": 4 * math.pi * m["rho"] * r / m["bcoh"], "G": 1.0}[Yn]
            if (np.abs((d1 - d2) * conv) > 1e-9 * (mag + mag2) + 1e-7 * np.abs(dG) + 1e-300)[r > 0].any():
                return "correction changes when interior data change"
    if case["desc"].get("fortran") and L.RN[case["X"]] == "S" and Yn == "g":
        import fortran_oracle as FO

        exe, _ = FO.build()
        if exe:
            dr = case["xout"][0]
            _, gf = FO.run(exe, case["xin"], case["yin"], dr, m["rho"], case["lorch"], len(case["xout"]))
            sc = (mag * 2 / math.pi + np.abs(dG)) / (4 * math.pi * m["rho"] * r) + 1
            if (np.abs(np.array(gf) - y_on) > 1e-9 * sc).any():
                i = int(np.argmax(np.abs(np.array(gf) - y_on) / sc))
                return "S_to_g with the correction gives %r at r=%r, compiled Fortran stog_bit gives %r" % (float(y_on[i]), float(r[i]), gf[i])
    return None
