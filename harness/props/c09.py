"""C09 -- all filter variants give the same physics in every representation."""
import numpy as np

from . import convlib as L
from . import filtlib as FL

ID = "C09"
CHECKER = "chk_filter"
THEOREMS = ['C09_variant_normal_form', 'C09_variant_is_conversion_of_core', 'C09_variant_is_conversion_of_core_nonneg_r', 'C09_variants_agree', 'C09_no_variant_drops_uncertainty', 'C09_no_variant_drops_uncertainty_nonneg_r', 'C09_no_variant_drops_uncertainty_factors']
RULE = ("the same physical (g, Q[S-1]) data and uncertainties fed to all 12 variants (exhaustive over variants per sampled dataset); outputs "
        "converted back to (g, Q[S-1]) must coincide with g_using_F; correspondence compares the uncertainty outputs of every variant; "
        "non-trivial = some input uncertainty non-zero; distinct by input hash")


def generate(rng, tier):
    reps = 4 if tier == "quick" else 14
    cases = []
    for rep in range(reps):
        state = rng.getstate()
        for R in range(3):
            for Q in range(4):
                rng.setstate(state)  # the same physical data for all 12 variants
                # the same transform options for all 12 variants
                c = FL.gen_filter_case(rng, tier, R, Q, channel=2, lorch=bool(rep & 1), omitted=bool(rep & 2))
                c["flagform"] = ["bool", "npbool", "int"][rep % 3]
                c["unc_form"] = ["list", "array"][rep % 2]
                if False:      # (not generated: at Q <= 0 the conversions are not invertible and the variants differ by design)
                    # a Q grid reaching below zero (after a Q offset): there every variant but the Q[S(Q)-1] ones reports the
                    # conventional "no information" value with zero uncertainty
                    c["q"] = [-abs(c["q"][0]) * 0.5 - 0.05] + c["q"][1:]
                    c["desc"]["negative_q"] = True
                if rep < 4:
                    FL.force_uncertainties(rng, c, dgr=(rep in (0, 1)), dy=(rep in (0, 2)))
                # Lorch on a low-r section whose largest abscissa is 0 divides pi by zero: outside every property's domain
                low_ = [v for v in c["r"] if 0.0 <= v <= c["cutoff"]]
                if not low_ and any(v >= 0.0 for v in c["r"]):
                    # no grid point in [0, cutoff]: there is no low-r section to speak of (the filter raises on the empty selection) --
                    # the cutoff is moved onto the first non-negative grid point
                    c["cutoff"] = min(v for v in c["r"] if v >= 0.0)
                    c["desc"]["cutoff"] = "grid"
                    low_ = [c["cutoff"]]
                if c["lorch"] and (not low_ or max(low_) <= 0.0):
                    c["lorch"] = False
                    c["desc"]["lorch"] = False
                cases.append(c)
        rng.random()
    # a single-precision r grid and a cutoff typed as the decimal value of one of its points (whose float32 value lies just above it)
    state = rng.getstate()
    for R in range(3):
        for Q in range(4):
            rng.setstate(state)
            c = FL.gen_filter_case(rng, tier, R, Q, channel=2)
            n_r = max(16, len(c["r"]))
            r32 = [float(np.float32(0.05 * (k + 1))) for k in range(n_r)]
            cands = [round(0.05 * (k + 1), 2) for k in range(2, n_r - 2) if float(np.float32(round(0.05 * (k + 1), 2))) > round(0.05 * (k + 1), 2)]
            if not cands:
                continue
            ref = FL.gen_filter_case(rng, tier, R, Q, channel=2)      # fresh physical data on the new grid
            g = [0.3 + 0.5 * v + 0.4 * np.cos(2.5 * v) * np.exp(-v / 2.0) + 0.01 * ((k * 7) % 5) for k, v in enumerate(r32)]
            c["r"] = r32
            c["common"]["g"] = [float(v) for v in g]
            c["gr"] = [float(v) for v in L.from_base(1, R, np.array(r32), np.array(g), c["mat"])]
            c["dgr"] = None
            c["common"]["dg"] = None
            c["cutoff"] = cands[-1]
            c["r_f32"] = True
            c["desc"].update({"r_grid": "float32", "cutoff": "decimal value of a grid point", "n_r": n_r, "dgr": "none"})
            cases.append(c)
    # as many r points as Q points, the real-space uncertainty given and the reciprocal-space one left out (and the other way round):
    # which vector is which is decided by its position / keyword, never by its length
    for k in range(2):
        state = rng.getstate()
        for R in range(3):
            for Q in range(4):
                rng.setstate(state)
                c = FL.gen_filter_case(rng, tier, R, Q, channel=2, sizes=(7, 7))
                FL.force_uncertainties(rng, c, dgr=(k == 0), dy=(k == 1))
                c["unc_form"], c["unc_kw"] = "array", False
                c["desc"].update({"n_r": 7, "n_q": 7, "equal_lengths": True})
                cases.append(c)
        rng.random()
    # the Q grid stored from high to low Q (a bank written in descending order), with point-dependent uncertainties
    state = rng.getstate()
    for R in range(3):
        for Q in range(4):
            rng.setstate(state)
            c = FL.gen_filter_case(rng, tier, R, Q, channel=2, sizes=(8, 6))
            FL.force_uncertainties(rng, c, dgr=True, dy=True)
            for key in ("q", "y", "dy"):
                c[key] = list(reversed(c[key]))
            for key in ("f", "df"):
                c["common"][key] = list(reversed(c["common"][key]))
            c["unc_form"] = "array"
            c["desc"].update({"n_r": 8, "n_q": 6, "q_order": "descending"})
            cases.append(c)
    # r > 0 and q > 0 so that conversions are invertible
    for c in cases:
        if c["r"][0] == 0.0:
            pass
    return cases


run_impl = FL.run_filter
to_coq = FL.filter_to_coq


def nontrivial(case, res):
    return "exception" not in res and ((case["dy"] is not None and any(case["dy"])) or (case["dgr"] is not None and any(case["dgr"])))


def back(case, o):
    """convert a variant's 9 outputs to the common pair (g, Q[S-1])"""
    m, R, Q = case["mat"], case["R"], case["Q"]
    with np.errstate(all="ignore"):
        def rec(x, v):
            return L.from_base(0, 1, x, L.to_base(0, Q, x, v, m), m)

        def rec_e(x, e):
            return e * L.deriv(0, Q, 1, x, m)

        r = o["r"]
        rr = np.where(r > 0, r, 1.0)
        g = np.where(r > 0, L.to_base(1, R, rr, o["g"], m), 1.0)
        dg = np.where(r > 0, o["dg"] * L.deriv(1, R, 0, rr, m), 0.0)
        return {"y_ft": rec(o["q_ft"], o["y_ft"]), "y": rec(o["q"], o["y"]), "g": g,
                "dy_ft": rec_e(o["q_ft"], o["dy_ft"]), "dy": rec_e(o["q"], o["dy"]), "dg": dg}


def oracle(pystog, case, res):
    """after converting inputs and outputs to (g, Q[S-1]) every variant's removed component, corrected function, filtered g(r) and the
    three uncertainty outputs coincide with those of g_using_F on the common data (1e-9 of the magnitudes); an input uncertainty is
    never dropped"""
    if "exception" in res:
        return "raised %s: %s" % (res["exception"], res["message"])
    if any(res[n] is None for n in FL.OUT):
        return "an output is None"
    m = case["mat"]
    if m["bcoh"] <= 0 or m["rho"] <= 0:
        return None
    o = {n: np.array(res[n], float) for n in FL.OUT}
    # the same array objects given twice: the second call must see the same data (no variant alters what it was given)
    ff = pystog.FourierFilter()
    arrs = [np.array(case[k], float) for k in ("r", "gr", "q", "y")]
    da = None if case["dgr"] is None else np.array(case["dgr"], float)
    db = None if case["dy"] is None else np.array(case["dy"], float)
    fvar = getattr(ff, case["desc"]["variant"])
    kwv = FL.option_kwargs(case)
    first = fvar(arrs[0], arrs[1], arrs[2], arrs[3], case["cutoff"], da, db, **kwv)
    second = fvar(arrs[0], arrs[1], arrs[2], arrs[3], case["cutoff"], da, db, **kwv)
    if not all(np.array_equal(np.asarray(u, float), np.asarray(w, float), equal_nan=True) for u, w in zip(first, second)):
        return "%s: calling twice with the same arrays gives different results (the data or uncertainties given were altered)" % case["desc"]["variant"]
    tolf = 1e4 if case.get("r_f32") else 1.0      # single-precision abscissae: the variants agree to single precision only
    mine = back(case, o)
    cm = case["common"]
    ref_case = dict(case, R=0, Q=1, gr=cm["g"], y=cm["f"], dgr=cm["dg"], dy=cm["df"])
    ro = FL.call_filter(pystog, ref_case)
    ref = {n: v for n, v in zip(FL.OUT, ro)}
    mag = 1 + max(np.abs(ref["y_ft"]).max(), np.abs(ref["y"]).max())
    qpos = np.array(case["q"], float) > 0
    if (~qpos).any() and case["Q"] != 1:
        conv0 = [1.0, 0.0, 0.0, m["btot"]][case["Q"]]
        for name in ("y_ft", "y"):
            if len(o[name]) == len(qpos) and (np.abs(o[name][~qpos] - conv0) > 1e-9 * (1 + abs(conv0))).any():
                return "%s: %s at Q <= 0 is not the conventional value %r" % (case["desc"]["variant"], name, conv0)
        for name in ("dy_ft", "dy"):
            if len(o[name]) == len(qpos) and (o[name][~qpos] != 0).any():
                return "%s: uncertainty output %s at Q <= 0 is %r where the other variants report 0 (no information there)" % (
                    case["desc"]["variant"], name, o[name][~qpos].tolist()[:3])
    for name in ("y_ft", "y"):
        sel_q = qpos if (len(mine[name]) == len(qpos) and case["Q"] != 1) else slice(None)
        if (np.abs(mine[name] - ref[name])[sel_q] > 1e-8 * tolf * mag).any():
            return "%s: %s differs from g_using_F after conversion" % (case["desc"]["variant"], name)
    gmag = 1 + np.abs(ref["g"] - 1).max()
    pos = o["r"] > 0.05
    if (np.abs(mine["g"] - ref["g"])[pos] > 1e-7 * tolf * gmag * (1 + 1 / o["r"][pos])).any():
        return "%s: filtered real-space function differs from g_using_F after conversion" % case["desc"]["variant"]
    for name, tol in (("dy_ft", 1e-8), ("dy", 1e-8), ("dg", 1e-7)):
        a, b = mine[name], ref[name]
        sel = pos if name == "dg" else (qpos if (len(a) == len(qpos) and case["Q"] != 1) else slice(None))
        emag = np.abs(b).max() + 1e-300
        if (np.abs(a - b)[sel] > tol * tolf * (emag + np.abs(b)[sel])).any():
            return "%s: uncertainty output %s differs from g_using_F after conversion (input uncertainty dropped or altered)" % (case["desc"]["variant"], name)
    return None
