"""Generators / runners for Transformer.fourier_transform and the 24 named
transforms (C01, C02, C05, C07, C13, C14, C15)."""
import math

import numpy as np

from . import convlib as L


def unsorted_grid(rng, n):
    """descending, or two ascending banks concatenated without re-sorting"""
    _, g = inc_grid(rng, n, rng.choice(["uniform", "jitter", "nonuniform"]))
    if rng.random() < 0.4 or n < 4:
        return "descending", g[::-1]
    k = (2 * n) // 3
    a, b = g[:k], g[k // 3:]                 # the second bank starts well inside the first
    both = a + [v + 0.37 * (g[1] - g[0]) for v in b]
    return "twobanks", both[:n]


def inc_grid(rng, n, kind=None, start0=None):
    """strictly increasing grid"""
    kind = kind or rng.choice(["uniform0", "uniform", "jitter", "nonuniform", "firstmean", "stitched", "intgrid"])
    if kind == "firstmean" and n < 4:
        kind = "nonuniform"
    if kind == "firstmean":      # non-uniform, but the first interval equals the mean interval
        x0 = rng.choice([0.0, rng.logu(0.01, 2.0)])
        h = rng.logu(0.01, 0.5)
        steps = [h] + [h * rng.uniform(0.3, 1.7) for _ in range(n - 2)]
        corr = h * (n - 1) - sum(steps)
        steps[-1] += corr
        if steps[-1] <= 0.05 * h:
            steps = [h, 0.5 * h, 1.5 * h] + [h] * (n - 4)
        g = [x0]
        for st in steps:
            g.append(g[-1] + st)
        return kind, g[:n]
    if kind == "stitched":       # two resolutions joined (fine bins then coarse bins)
        x0 = rng.choice([0.0, rng.logu(0.01, 1.0)])
        h1, h2 = rng.logu(0.01, 0.1), rng.logu(0.1, 0.6)
        k = max(1, n // 2)
        g = [x0 + i * h1 for i in range(k)]
        g += [g[-1] + (i + 1) * h2 for i in range(n - k)]
        return kind, g
    if kind == "intgrid":        # integer-valued abscissae (also passed as an integer array)
        x0 = rng.choice([0, 1, 2])
        g, x = [], x0
        for _ in range(n):
            g.append(float(x))
            x += rng.choice([1, 1, 2, 3])
        return kind, g
    if kind == "uniform0":
        h = rng.logu(0.01, 0.5)
        g = [i * h for i in range(n)]
    elif kind == "uniform":
        h = rng.logu(0.01, 0.5)
        x0 = rng.logu(0.01, 2.0)
        g = [x0 + i * h for i in range(n)]
    elif kind == "jitter":
        h = rng.logu(0.01, 0.5)
        x0 = rng.choice([0.0, rng.logu(0.01, 2.0)])
        g = [x0 + (i + (rng.uniform(-0.3, 0.3) if i else 0.0)) * h for i in range(n)]
    else:
        x = rng.choice([0.0, rng.logu(1e-3, 1.0)])
        g = []
        for _ in range(n):
            g.append(x)
            x += rng.logu(1e-3, 1.0)
    return kind, g


def data(rng, x, kind=None):
    kind = kind or rng.choice(["smooth", "random", "wide", "ints", "spike", "tiny"])
    n = len(x)
    if kind == "tiny":           # the same signal in other units: amplitudes far below 1e-8
        amp = rng.choice([3e-9, 1e-10, 2.5e-13])
        return kind, [amp * rng.uniform(-2, 2) for _ in range(n)]
    if kind == "smooth":
        a, b, c = rng.uniform(0.2, 3), rng.uniform(0.05, 2), rng.uniform(-2, 2)
        return kind, [c * xi * math.exp(-b * xi * xi / (1 + x[-1])) + math.sin(a * xi) for xi in x]
    if kind == "random":
        return kind, [rng.uniform(-2, 2) for _ in range(n)]
    if kind == "wide":
        return kind, [rng.sgn() * rng.logu(1e-6, 1e6) for _ in range(n)]
    if kind == "ints":
        return kind, [float(rng.randint(-4, 4)) for _ in range(n)]
    y = [0.0] * n
    y[rng.randrange(n)] = rng.uniform(-3, 3)
    return kind, y


def out_grid(rng, m, kind=None):
    kind = kind or rng.choice(["uniform0", "uniform", "mixed", "intout"])
    if kind == "intout":
        return kind, [float(i + rng.choice([0, 1])) for i in range(m)] if m > 1 else [float(rng.randint(0, 5))]
    if kind == "uniform0":
        h = rng.logu(0.01, 1.0)
        return kind, [i * h for i in range(m)]
    if kind == "uniform":
        h = rng.logu(0.01, 1.0)
        return kind, [(i + 1) * h for i in range(m)]
    pool = [0.0, -rng.logu(0.01, 20), rng.logu(0.01, 30)]
    g = [rng.choice(pool + [rng.uniform(-20, 40)]) for _ in range(m)]
    if m > 1:
        g[rng.randrange(m)] = g[0]  # a repeated abscissa
    return kind, g


def window(rng, x, mode=None):
    """(xmin, xmax, descriptor); None = not given"""
    mode = mode or rng.choice(["none", "none", "grid", "between", "outside", "lo_only", "hi_only", "hi_grid", "near"])
    lo, hi = min(x), max(x)
    if mode == "none" or len(x) < 2:
        return None, None, "none"
    if mode == "near":     # an edge a hair inside a grid point: that point is outside the closed interval
        i = rng.randrange(0, len(x) - 1)
        j = rng.randrange(i + 1, len(x))
        eps = rng.choice([1e-7, 3e-9, 1e-12])
        lo_ = x[i] + abs(x[i]) * eps + (1e-12 if x[i] == 0 else 0.0)
        hi_ = x[j] - abs(x[j]) * eps
        return (lo_ if rng.random() < 0.6 else x[i]), (hi_ if rng.random() < 0.8 else x[j]), mode
    if mode == "grid":
        i = rng.randrange(0, len(x) - 1)
        j = rng.randrange(i, len(x))
        return x[i], x[j], mode
    if mode == "between":
        a, b = sorted([rng.uniform(lo, hi), rng.uniform(lo, hi)])
        return a, b, mode
    if mode == "outside":
        return lo - rng.uniform(0, 1), hi + rng.uniform(0, 1), mode
    if mode == "lo_only":
        return rng.choice([x[rng.randrange(len(x))], rng.uniform(lo, hi)]), None, mode
    if mode == "hi_only":
        return None, rng.uniform(lo + (hi - lo) * 0.3, hi + 0.5), mode
    j = rng.randrange(max(1, len(x) // 2), len(x))
    return None, x[j], "hi_grid"


def sizes(rng, tier):
    big = 60 if tier == "quick" else 160
    n = rng.choice([2, 3, 5, 7, 11, rng.randint(2, 30), rng.randint(2, big)])
    m = rng.choice([1, 2, 3, rng.randint(1, 12)])
    return n, m


def gen_ft_case(rng, tier, lorch=False, omitted=False, channel=2, win=None, dy_kinds=None, grid_kind=None, unsorted=False):
    n, m = sizes(rng, tier)
    gk, xin = unsorted_grid(rng, n) if unsorted else inc_grid(rng, n, grid_kind)
    if omitted and xin[0] == 0.0 and rng.random() < 0.7:
        s = rng.logu(0.05, 1.5)
        xin = [v + s for v in xin]
    dk, yin = data(rng, xin)
    ok, xout = out_grid(rng, m)
    xmin, xmax, wk = window(rng, xin, win)
    if lorch and xmax is not None and xmax <= 0:
        xmax, wk = None, wk + "-nohi"   # Lorch with an upper limit of 0 divides pi by zero: outside every property's domain
    uk, dy = L.uncert(rng, n)
    if dy_kinds and uk not in dy_kinds:
        uk, dy = "pos", [rng.logu(1e-4, 1.0) for _ in range(n)]
    idt = [gk == "intgrid" and rng.random() < 0.7, dk == "ints" and rng.random() < 0.6, ok == "intout" and rng.random() < 0.7]
    return {"xin": xin, "yin": yin, "xout": xout, "xmin": xmin, "xmax": xmax, "dy": dy,
            "lorch": bool(lorch), "omitted": bool(omitted), "channel": channel, "int_dtype": idt,
            "flagform": rng.choice(["bool", "bool", "npbool", "npbool", "int"]) if (lorch or omitted) else "bool",
            "xout_form": rng.choice(["array", "array", "array", "list", "tuple"]),
            "desc": {"n": n, "m": m, "grid": gk, "int_arrays": "".join("1" if t else "0" for t in idt), "data": dk, "out": ok, "window": wk, "dy": uk,
                     "zero_on_grid": 0.0 in xin, "lorch": bool(lorch), "omitted": bool(omitted)}}


def flag_value(b, form):
    """a switched-on option may arrive as a Python bool, a numpy bool (the result of a comparison on arrays) or 1"""
    if form == "npbool":
        return np.bool_(b)
    if form == "int":
        return int(bool(b))
    return bool(b)


def as_arr(vals, want_int):
    """integer-typed array only when asked for and every value is integral"""
    if want_int and all(float(v).is_integer() for v in vals):
        return np.array(vals, dtype=np.int64)
    return np.array(vals, dtype=float)


def call_ft(pystog, case, xin=None, yin=None, xout=None, dy="same", tr=None, **over):
    tr = tr or pystog.Transformer()
    kw = {}
    lorch = over.get("lorch", case["lorch"])
    omitted = over.get("omitted", case["omitted"])
    form = case.get("flagform", "bool")
    if lorch or case.get("pass_flags"):
        kw["lorch"] = flag_value(lorch, form)
    if omitted or case.get("pass_flags"):
        kw["OmittedXrangeCorrection"] = flag_value(omitted, form)
    d = case["dy"] if isinstance(dy, str) else dy
    idt = case.get("int_dtype", [False, False, False])
    xi = as_arr(case["xin"] if xin is None else xin, idt[0] and xin is None)
    yi = as_arr(case["yin"] if yin is None else yin, idt[1] and yin is None)
    xo = as_arr(case["xout"] if xout is None else xout, idt[2] and xout is None)
    if case.get("xout_form") in ("list", "tuple") and xout is None:      # "numpy.array or list"
        xo = (list if case["xout_form"] == "list" else tuple)(float(v) for v in case["xout"])
    xo_, yo, eo = tr.fourier_transform(xi, yi, xo, xmin=over.get("xmin", case["xmin"]), xmax=over.get("xmax", case["xmax"]),
                                       dy_in=None if d is None else np.array(d, float), **kw)
    return np.asarray(xo_, float), np.asarray(yo, float), np.asarray(eo, float)


def run_reused(pystog, case, caller, what):
    """the call under test is made on a Transformer that has been used before (reuse.prime) and is used again afterwards
    (reuse.hold)"""
    from . import reuse
    tr = pystog.Transformer()
    alt_y, alt_d = reuse.alt_data(case["yin"])

    def call(alt, with_dy):
        if alt:
            return caller(pystog, case, yin=alt_y, dy=alt_d if with_dy else None, tr=tr)
        return caller(pystog, case, tr=tr)
    reuse.prime(call)
    # ... and on which some calls have failed (mismatched lengths, a window holding no point with the correction on, a scalar grid)
    x_, xo_ = np.linspace(0.5, 3.0, 6), np.linspace(0.1, 1.0, 4)
    bad = [((x_, np.ones(5), xo_), {}), ((x_, np.ones(6), xo_), {"xmin": 50.0, "xmax": 60.0, "OmittedXrangeCorrection": True}), ((x_, np.ones(6), 1.0), {})]
    reuse.provoke(tr, [(n_, a_, k_) for n_ in ("F_to_G", "G_to_F", "S_to_g", "g_to_S", "fourier_transform") for a_, k_ in bad])
    outs = call(False, None)
    res = {"xout": outs[0].tolist(), "yout": outs[1].tolist(), "eout": outs[2].tolist()}
    msg = reuse.hold(call, outs, what)
    if not msg and not case.get("big") and len(case["xin"]) <= 400:
        # the very same array objects, the data refilled in place between two calls
        kw = {}
        if caller is call_named:
            kw = named_kwargs(case)
            meth = named_name(case)
        else:
            if case["lorch"]:
                kw["lorch"] = True
            if case["omitted"]:
                kw["OmittedXrangeCorrection"] = True
            if case.get("xmin") is not None:
                kw["xmin"] = case["xmin"]
            if case.get("xmax") is not None:
                kw["xmax"] = case["xmax"]
            meth = "fourier_transform"
        d0 = None if case["dy"] is None else np.array(case["dy"], float)
        arrays = [np.array(case["xin"], float), np.array(case["yin"], float), np.array(case["xout"], float), d0]

        def f_on(obj):
            m_ = getattr(obj, meth)
            if meth == "fourier_transform":
                return lambda a_, b_, c_, d_: m_(a_, b_, c_, dy_in=d_, **kw)
            return lambda a_, b_, c_, d_: m_(a_, b_, c_, d_, **kw)
        msg = reuse.refilled_in_place(f_on(tr), f_on(pystog.Transformer()), arrays, 1, what)
    if msg:
        res["reuse_error"] = msg
    return res


def run_ft(pystog, case):
    return run_reused(pystog, case, call_ft, "fourier_transform")


def ft_to_coq(case, res):
    if "exception" in res:
        out = [[float("nan")], [float("nan")], [float("nan")]]
    else:
        out = [res["xout"], res["yout"], res["eout"]]
    dy = case["dy"]
    return ([case["xin"], case["yin"], dy if dy is not None else [], case["xout"]],
            [case["xmin"] if case["xmin"] is not None else 0.0, case["xmax"] if case["xmax"] is not None else 0.0],
            [0 if case["xmin"] is None else 1, 0 if case["xmax"] is None else 1, 0 if dy is None else 1,
             1 if case["lorch"] else 0, 1 if case["omitted"] else 0, case["channel"]],
            out)


def nontrivial_ft(case, res):
    return "exception" not in res and (any(v != 0 for v in res["yout"]) or any(v != 0 for v in res["eout"]))


# ---- independent quadrature (pure Python, exact summation) ----
def crop_py(x, y, e, lo, hi):
    keep = [i for i, v in enumerate(x) if lo <= v <= hi]
    return [x[i] for i in keep], [y[i] for i in keep], [e[i] for i in keep]


def lorch_w(a, x):
    return 1.0 if a * x == 0 else math.sin(a * x) / (a * x)


def trapz_sine(x, y, xp):
    """trapezoid integral of y(x) sin(x xp); returns (value, L1 magnitude of the terms)"""
    k = [yi * math.sin(xi * xp) for xi, yi in zip(x, y)]
    terms = [(x[i + 1] - x[i]) * (k[i + 1] + k[i]) / 2 for i in range(len(x) - 1)]
    mag = sum(abs(x[i + 1] - x[i]) * (abs(y[i + 1]) + abs(y[i])) / 2 for i in range(len(x) - 1))
    return math.fsum(terms), mag


# ---- named transforms ----
def gen_named_case(rng, tier, direction, X, Y, lorch=False, omitted=False, channel=2, positive=False, unsorted=False, win="none"):
    n, m = sizes(rng, tier)
    gk, xin = unsorted_grid(rng, n) if unsorted else inc_grid(rng, n)
    if (omitted or positive) and xin[0] == 0.0:
        s = rng.logu(0.05, 1.5)
        xin = [v + s for v in xin]
    base = "around1" if (direction == 0 and X == 0) or (direction == 1 and X == 0) else None
    dk, yin = data(rng, xin)
    if base and rng.random() < 0.7:
        yin = [1.0 + 0.3 * v for v in yin]
    ok, xout = out_grid(rng, m, "uniform" if positive else None)
    uk, dy = L.uncert(rng, n)
    mat = L.material(rng)
    names_in, names_out = (L.RN, L.GN) if direction == 0 else (L.GN, L.RN)
    idt = [gk == "intgrid" and rng.random() < 0.7, dk == "ints" and not (base and True) and rng.random() < 0.6, ok == "intout" and rng.random() < 0.7]
    if idt[1]:
        yin = [float(round(v)) for v in yin]
    xmin, xmax, wk = window(rng, xin, win)
    if xmax is not None and xmax <= 0:
        xmax, wk = None, wk + "-nohi"
    if (omitted or positive) and xmin is not None and xmin <= 0:
        xmin, wk = None, wk + "-nolo"
    return {"dir": direction, "X": X, "Y": Y, "xin": xin, "yin": yin, "xout": xout, "dy": dy, "mat": mat,
            "lorch": bool(lorch), "omitted": bool(omitted), "channel": channel, "int_dtype": idt, "xmin": xmin, "xmax": xmax,
            "flagform": rng.choice(["bool", "bool", "npbool", "npbool", "int"]) if (lorch or omitted) else "bool",
            "callform": "kw" if (dy is not None and rng.random() < 0.35) else "pos",
            "minimal_kw": rng.random() < 0.4,
            # (an output grid given as a list: only where the pinned code itself accepts one -- not the transforms that multiply r by a float)
            "xout_form": rng.choice(["array", "array", "array", "list", "tuple"]) if (direction == 1 or Y == 1) else "array",
            "desc": {"method": "%s_to_%s" % (names_in[X], names_out[Y]), "n": n, "m": m, "grid": gk, "data": dk, "window": wk,
                     "int_arrays": "".join("1" if t else "0" for t in idt),
                     "out": ok, "dy": uk, "lorch": bool(lorch), "omitted": bool(omitted), "zero_on_grid": 0.0 in xin}}


def named_needed(case):
    """the material constants a named transform really uses"""
    rk, gk = (L.RN[case["X"]], L.GN[case["Y"]]) if case["dir"] == 0 else (L.RN[case["Y"]], L.GN[case["X"]])
    need = set()
    if gk in ("g", "GK"):
        need.add("rho")
    if rk in ("FK", "DCS") or gk == "GK":
        need.add("<b_coh>^2")
    if rk == "DCS":
        need.add("<b_tot^2>")
    return need


def named_kwargs(case, **over):
    kw = L.kwargs_of(case["mat"])
    if case.get("minimal_kw"):      # a caller need not supply constants the transform does not use
        need = named_needed(case)
        kw = {k: v for k, v in kw.items() if k in need}
    lorch = over.get("lorch", case["lorch"])
    omitted = over.get("omitted", case["omitted"])
    form = case.get("flagform", "bool")
    if lorch or case.get("pass_flags"):
        kw["lorch"] = flag_value(lorch, form)
    if omitted or case.get("pass_flags"):
        kw["OmittedXrangeCorrection"] = flag_value(omitted, form)
    if case.get("foreign_kw"):      # the caller forwards its whole settings dictionary: keys that are not the transform's business change nothing
        kw.update({"LorchFlag": True, "RealSpaceFunction": "G(r)", "Rdelta": 0.5, "NumberDensity": 1.0, "Rmax": 25.0})
    # the window keywords of the core transform, given to the named transform
    if over.get("xmin", case.get("xmin")) is not None:
        kw["xmin"] = over.get("xmin", case.get("xmin"))
    if over.get("xmax", case.get("xmax")) is not None:
        kw["xmax"] = over.get("xmax", case.get("xmax"))
    return kw


def named_name(case):
    names_in, names_out = (L.RN, L.GN) if case["dir"] == 0 else (L.GN, L.RN)
    return "%s_to_%s" % (names_in[case["X"]], names_out[case["Y"]])


def call_named(pystog, case, yin=None, dy="same", tr=None, **over):
    tr = tr or pystog.Transformer()
    name = named_name(case)
    f = getattr(tr, name)
    d = case["dy"] if isinstance(dy, str) else dy
    idt = case.get("int_dtype", [False, False, False])
    kw = named_kwargs(case, **over)
    args = [as_arr(case["xin"], idt[0]), as_arr(case["yin"] if yin is None else yin, idt[1] and yin is None), as_arr(case["xout"], idt[2])]
    if case.get("xout_form") in ("list", "tuple"):      # "numpy.array or list"
        args[2] = (list if case["xout_form"] == "list" else tuple)(float(v) for v in case["xout"])
    if case.get("callform") == "kw" and d is not None:
        kw[L.unc_kw(name)] = np.array(d, float)
        xo, yo, eo = f(*args, **kw)
    else:
        xo, yo, eo = f(*args, None if d is None else np.array(d, float), **kw)
    return np.asarray(xo, float), np.asarray(yo, float), np.asarray(eo, float)


def run_named(pystog, case):
    return run_reused(pystog, case, call_named, named_name(case))


def named_to_coq(case, res):
    if "exception" in res:
        out = [[float("nan")], [float("nan")], [float("nan")]]
    else:
        out = [res["xout"], res["yout"], res["eout"]]
    dy = case["dy"]
    m = case["mat"]
    return ([case["xin"], case["yin"], dy if dy is not None else [], case["xout"]],
            [m["rho"], m["bcoh"], m["btot"], case.get("xmin") if case.get("xmin") is not None else 0.0,
             case.get("xmax") if case.get("xmax") is not None else 0.0],
            [case["dir"], case["X"], case["Y"], 0 if dy is None else 1, 1 if case["lorch"] else 0,
             1 if case["omitted"] else 0, case["channel"], 0 if case.get("xmin") is None else 1, 0 if case.get("xmax") is None else 1],
            out)


def poison(sizes, fill):
    """Fill and free heap blocks of the given element counts, so that the next
    uninitialised numpy allocation of such a size sees `fill`."""
    blocks = []
    for n in sizes:
        for _ in range(48):
            blocks.append(np.full(max(1, n), fill))
    del blocks


def l1_scale(case, lorch=None):
    """L1 magnitude of the quadrature terms of a fourier_transform case (pure Python)."""
    x, y = case["xin"], case["yin"]
    e = case["dy"] if case["dy"] is not None else [0.0] * len(x)
    lo = case["xmin"] if case["xmin"] is not None else min(x)
    hi = case["xmax"] if case["xmax"] is not None else max(x)
    xc, yc, ec = crop_py(x, y, e, lo, hi)
    if (case["lorch"] if lorch is None else lorch) and hi != 0:
        a = math.pi / hi
        w = [lorch_w(a, v) for v in xc]
        yc = [u * v for u, v in zip(w, yc)]
        ec = [u * v for u, v in zip(w, ec)]
    mag = sum(abs(xc[i + 1] - xc[i]) * (abs(yc[i + 1]) + abs(yc[i])) / 2 for i in range(len(xc) - 1))
    emag = math.sqrt(sum((xc[i + 1] - xc[i]) ** 2 * (ec[i + 1] ** 2 + ec[i] ** 2) / 2 for i in range(len(xc) - 1)))
    return xc, yc, ec, mag, emag


class poisoned_empty:
    """While active, numpy.empty / numpy.empty_like hand out buffers pre-filled with `fill` (what an allocator may
    legitimately return for uninitialised memory); code that reads a slot it never wrote becomes visible."""

    def __init__(self, fill):
        self.fill = fill

    def __enter__(self):
        self._e, self._el = np.empty, np.empty_like
        fill = self.fill

        def empty(*a, **k):
            out = self._e(*a, **k)
            try:
                out.fill(fill)
            except Exception:
                pass
            return out

        def empty_like(*a, **k):
            out = self._el(*a, **k)
            try:
                out.fill(fill)
            except Exception:
                pass
            return out
        np.empty, np.empty_like = empty, empty_like
        return self

    def __exit__(self, *exc):
        np.empty, np.empty_like = self._e, self._el
        return False
