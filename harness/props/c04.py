"""C04 -- real-space conversions follow their definitions and invert each other."""
from . import c03 as B
from . import convlib as L

ID = "C04"
CHECKER = "chk_conv"
THEOREMS = ['C04_pointwise', 'C04_defining_formulas', 'C04_roundtrip', 'C04_two_step_paths', 'C04_value_at_r0', 'C04_gconv', 'C04_gconv_sharp', 'C04_gconv_needs_rho']
RULE = B.RULE.replace("all 12 ordered pairs", "all 6 ordered pairs of g, G, GK").replace(", bcoh of either sign", ", rho > 0 and bcoh > 0")


def generate(rng, tier):
    cases = []
    for _ in range(2):
        cases += L.gen_conv_cases(rng, tier, 1, 0, signed_bcoh=False)
    return cases


run_impl = L.run_conv
to_coq = L.conv_to_coq
nontrivial = L.nontrivial_conv
oracle = B.oracle
