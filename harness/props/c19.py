"""C19 -- configuration reaches the workflow intact; optional keys mean their defaults."""
import contextlib
import hashlib
import io
import itertools
import json
import sys
import os
import shutil

import numpy as np

from . import convlib as L
from . import stoglib as SL
from . import setlib as SET

import common as C  # noqa: E402

ID = "C19"
CHECKER = "chk_config"
THEOREMS = ['C19_omitted_is_default', 'C19_omitted_is_default_cli', 'C19_fill_defaults_total', 'C19_given_keys_land', 'C19_absent_keys_default', 'C19_invalid_choice_rejected', 'C19_valid_accepted', 'C19_rgrid_spec', 'C19_rgrid_from_keys', 'C19_cli_args_land', 'C19_cli_plan_spec', 'C19_cli_filter_iff_cutoff', 'C19_cli_lorch_iff_flag', 'C19_cli_equals_library_partial', 'C19_cli_reads_differently_refuted', 'C19_cli_reads_differently_always', 'C19_cli_drops_first_data_row', 'C19_cli_is_a_workflow_run', 'C19_cli_keen_outputs', 'C19_cli_final_flow', 'C19_flags_omitted_is_default', 'C19_no_flags_is_default_args', 'C19_flags_omitted_same_settings', 'C19_set_error_keeps_state', 'C19_set_error_prefix', 'C19_set_grid_init', 'C19_set_grid_step', 'C19_set_grid_run', 'C19_set_grid_restored', 'C19_set_grid_last_grid_op', 'C19_set_grid_last_grid_op_strong', 'C19_set_grid_broken_by_dr', 'C19_set_titles_init', 'C19_set_titles_step', 'C19_set_titles_run', 'C19_set_titles_restored', 'C19_set_titles_last_fn', 'C19_set_titles_broken_by_title_op', 'C19_set_frame_rmin', 'C19_set_frame_rmax', 'C19_set_frame_rdelta', 'C19_set_frame_rho', 'C19_set_frame_bcoh', 'C19_set_frame_btot', 'C19_set_frame_lowq', 'C19_set_frame_lorch', 'C19_set_frame_cutoff', 'C19_set_frame_merge', 'C19_set_frame_qmin', 'C19_set_frame_qmax', 'C19_set_frame_fn', 'C19_set_frame_stem', 'C19_set_frame_xmin', 'C19_set_frame_xmax', 'C19_set_frame_tfix', 'C19_set_frame_files', 'C19_set_frame_dr', 'C19_set_frame_tgr', 'C19_set_frame_tgrft', 'C19_set_frame_tgrl', 'C19_set_last_write_wins', 'C19_set_lww_rmin', 'C19_set_lww_rmax', 'C19_set_lww_rdelta', 'C19_set_lww_rho', 'C19_set_lww_bcoh', 'C19_set_lww_btot', 'C19_set_lww_lowq', 'C19_set_lww_lorch', 'C19_set_lww_cutoff', 'C19_set_lww_merge', 'C19_set_lww_qmin', 'C19_set_lww_qmax', 'C19_set_lww_fn', 'C19_set_lww_stem', 'C19_set_lww_xmin', 'C19_set_lww_xmax', 'C19_set_independent_commute', 'C19_set_independent_same_error', 'C19_set_grid_setters_commute', 'C19_set_dr_vs_grid_op_do_not_commute', 'C19_set_fn_vs_title_op_do_not_commute', 'C19_set_same_field_do_not_commute', 'C19_set_file_ops_do_not_commute', 'C19_set_idempotent', 'C19_set_idempotent_strong', 'C19_set_append_not_idempotent', 'C19_set_construct_ok', 'C19_set_construct_obj_of', 'C19_set_construct_err', 'C19_set_construct_ok_only_if', 'C19_set_ctor_ops_no_dr_no_title']
RULE = ("StoG(**cfg) for subsets of the optional keys (thorough: every presence pattern of the 14 optional keys; quick: sampled) with valid, "
        "invalid (unknown function name, non-boolean flag) and boundary values; r grid compared element-wise with np.arange; pystog_cli run "
        "end to end in a scratch directory in JSON and flag form, its call sequence and its files compared with driving the library with "
        "the same settings; non-trivial = at least one optional key present; distinct by input hash")
FN = ["g(r)", "G(r)", "GK(r)", "bogus(r)"]
KEYS = ["fn", "rmin", "rmax", "rdelta", "rpoints", "rho", "lowq", "lorch", "ff", "bcoh", "btot", "merge", "qmin", "qmax"]


def gen_values(rng):
    rmax = rng.choice([5.0, 10.0, 2.5, rng.uniform(1.0, 30.0)])
    return {"fn": rng.choice([0, 1, 2, 2, 1, 0, 3]), "rmin": rng.choice([0.0, 0.5, rng.uniform(0.0, 1.0)]), "rmax": rmax,
            "rdelta": rng.choice([0.01, 0.02, 0.1, 0.25, rng.uniform(0.01, 0.5)]), "rpoints": rng.choice([50, 100, 250, rng.randint(10, 400)]),
            "rho": rng.logu(0.01, 1.0), "lowq": rng.choice([1, 2, 2, 1, 3]), "lorch": rng.choice([1, 2, 1, 2, 3]),
            "ff": rng.choice([1, 2, 3, 3]), "cutoff": rng.uniform(0.5, 3.0), "bcoh": rng.logu(0.1, 10), "btot": rng.logu(0.1, 10),
            "Y": rng.choice([None, {}, {"Scale": rng.uniform(0.5, 2)}, {"Offset": rng.uniform(-0.2, 0.2)}, {"Scale": 1.5, "Offset": 0.25}]),
            "F": rng.choice([None, None, {}, {"Y": {}}, {"Y": {"Scale": rng.uniform(0.5, 2)}}, {"Y": {"Scale": 0.5, "Offset": 0.1}}]),
            "qmin": rng.choice([0.1, 0.3]), "qmax": rng.choice([1.5, 2.0])}


def generate(rng, tier):
    cases = []
    if tier == "thorough":
        pats = list(itertools.product([0, 1], repeat=len(KEYS)))
        rng.shuffle(pats)
        pats = pats[:6000]
    else:
        pats = [tuple(rng.randint(0, 1) for _ in KEYS) for _ in range(150)] + [tuple([0] * len(KEYS)), tuple([1] * len(KEYS))]
    for p in pats:
        v = gen_values(rng)
        if tier == "thorough" and rng.random() < 0.8:
            v["fn"] = v["fn"] % 3
            v["lowq"] = 1 + v["lowq"] % 2
            v["lorch"] = 1 + v["lorch"] % 2
        v["outputs"] = rng.choice([None, None, "empty", "s7"])
        cases.append({"kind": "attrs", "mode": 0, "present": dict(zip(KEYS, p)), "v": v, "shuffle": rng.randint(0, 10 ** 6) if rng.random() < 0.7 else None,
                      "desc": {"kind": "attrs", "n_present": sum(p), "bad_fn": bool(p[0] and v["fn"] == 3),
                               "bad_flag": bool((p[6] and v["lowq"] == 3) or (p[7] and v["lorch"] == 3))}})
    for i in range(60 if tier == "quick" else 600):      # flag form with arbitrary subsets of the optional flags: argparse defaults
        v = gen_values(rng)
        v["fn"] = v["fn"] % 3
        v["lowq"], v["lorch"] = 1 + v["lowq"] % 2, 1 + v["lorch"] % 2
        v["Y"] = {"Scale": rng.choice([1.0, 1.5, 0.5]), "Offset": rng.choice([0.0, 0.1])}
        v["F"] = None
        v["rmax"], v["rpoints"] = rng.choice([5.0, 20.0]), rng.choice([50, 200])
        p = {k: rng.randint(0, 1) for k in KEYS}
        p.update({"rmin": 0, "qmin": 0, "qmax": 0, "rho": 1})
        if not p["rmax"] and not p["rpoints"] and not p["rdelta"]:
            p["rdelta"] = 1       # the default grid has 5001 points: keep most cases small
            v["rdelta"] = 0.5
        if not p["rdelta"] and not p["rpoints"]:
            if i % 3 == 0:
                p["rmax"] = 1         # the default --Rpoints (5000) on a short range: 5001 grid points
            else:
                p["rpoints"] = 1
        cases.append({"kind": "attrs", "mode": 1, "present": p, "v": v,
                      "desc": {"kind": "attrs", "form": "flags", "n_present": sum(p.values()), "bad_fn": False, "bad_flag": False}})
    for i in range(30 if tier == "quick" else 200):      # one -f flag: the order of the six values after the file name
        vals = [round(rng.uniform(0.0, 1.0), 3), round(rng.uniform(5.0, 30.0), 3), round(rng.uniform(-0.5, 0.5), 3),
                round(rng.uniform(0.5, 2.0), 3), round(rng.uniform(-0.2, 0.2), 3)]
        kind = i % 5
        bad = ["bogus(Q)", "F(Q)", "Q", "DCS", "S", "FK", "s(q)", "S(Q)-1", "G(r)"][(i // 5) % 9]
        cases.append({"kind": "fileflag", "mode": 1, "present": {k: 0 for k in KEYS}, "v": {"vals": vals, "kind": kind, "badname": bad},
                      "desc": {"kind": "fileflag", "function": (SL.KINDS + ["bogus(Q)"])[kind]}})
    n_cli = 14 if tier == "quick" else 60
    for i in range(n_cli):
        v = gen_values(rng)
        v["fn"] = i % 3
        v["lowq"] = 1 + (i // 3) % 2
        v["lorch"] = 1 + (i // 2) % 2
        v["rmax"], v["rpoints"], v["rdelta"] = 4.0, rng.choice([20, 40]), rng.choice([0.1, 0.2])
        mode = i % 2
        if mode == 1:
            p = {k: 1 for k in KEYS}
            p.update({"rmin": 0, "qmin": 0, "qmax": 0, "rdelta": int(i % 4 == 1), "bcoh": int(i % 3 != 0), "btot": int(i % 5 != 0), "merge": int(i % 4 != 2)})
            v["ff"] = 3 if i % 3 else 2
            v["Y"] = {"Scale": rng.choice([1.0, 1.5]), "Offset": rng.choice([0.0, 0.1])}
            v["F"] = None
        else:
            p = {k: rng.randint(0, 1) for k in KEYS}
            p["rmax"] = 1
            p["rpoints"] = 1
            if v["ff"] == 1 and i % 4:
                v["ff"] = 3
            if i % 4 == 2:      # a short settings file: only what differs from the defaults (no grid step, no point count; every other key absent or as drawn)
                p["rpoints"] = p["rdelta"] = 0
                if i % 8 == 2:
                    p = {k: 0 for k in KEYS}
                    p["rmax"] = p["rho"] = 1
        nfiles = rng.choice([1, 2])
        files = []
        for _f in range(nfiles):
            d = SL.gen_dataset(rng, "quick", offsets=False)
            d["x"] = sorted(set(round(abs(x) + 0.1, 2) for x in d["x"]) | set(round(0.15 + 0.1 * k_, 2) for k_ in range(6)))
            d["s_true"] = d["s_true"][:len(d["x"])] + [1.0] * (len(d["x"]) - len(d["s_true"]))
            d["dy"] = None
            d["Qmin"], d["Qmax"] = 0.0, 50.0
            d["Y"] = {"Offset": 0.0, "Scale": 1.0}
            d["X"] = {"Offset": 0.0}
            mat = {"rho": v["rho"], "bcoh": v["bcoh"] if p["bcoh"] else 1.0, "btot": v["btot"] if p["btot"] else 1.0}
            d = SL.finish_dataset(d, mat)
            if i % 3 != 0:   # per-file window / scale / offset values that are all different
                d["flagvals"] = [0.2, 40.0, round(rng.uniform(0.05, 0.3), 2), round(rng.uniform(1.1, 1.9), 2), rng.choice([0.0, 0.1])]
            files.append(d)
        cases.append({"kind": "cli", "mode": mode, "present": p, "v": v, "files": files,
                      "desc": {"kind": "cli", "form": "flags" if mode else "json", "n_files": nfiles, "fn": FN[v["fn"]],
                               "filter": bool(p["ff"] and v["ff"] == 3), "lorch": bool(p["lorch"] and v["lorch"] == 2)}})
    cases += SET.generate(rng, tier)
    return cases


def flag_json(code):
    return {1: False, 2: True, 3: "yes"}[code]


def build_kwargs(case):
    p, v = case["present"], case["v"]
    kw = {}
    if p["fn"]:
        kw["RealSpaceFunction"] = FN[v["fn"]]
    if p["rmin"]:
        kw["Rmin"] = v["rmin"]
    if p["rmax"]:
        kw["Rmax"] = v["rmax"]
    if p["rdelta"]:
        kw["Rdelta"] = v["rdelta"]
    if p["rpoints"]:
        kw["Rpoints"] = v["rpoints"]
    if p["rho"]:
        kw["NumberDensity"] = v["rho"]
    if p["lowq"]:
        kw["OmittedXrangeCorrection"] = flag_json(v["lowq"])
    if p["lorch"]:
        kw["LorchFlag"] = flag_json(v["lorch"])
    if p["ff"]:
        kw["FourierFilter"] = {1: {}, 2: {"Cutoff": None}, 3: {"Cutoff": v["cutoff"]}}[v["ff"]]
    if p["bcoh"]:
        kw["<b_coh>^2"] = v["bcoh"]
    if p["btot"]:
        kw["<b_tot^2>"] = v["btot"]
    if p["merge"]:
        m = {}
        if v["Y"] is not None:
            m["Y"] = dict(v["Y"])
        if v["F"] is not None:
            m["Q[S(Q)-1]"] = json.loads(json.dumps(v["F"]))
        tr = {}
        if p["qmin"]:
            tr["Qmin"] = v["qmin"]
        if p["qmax"]:
            tr["Qmax"] = v["qmax"]
        if tr:
            m["Transform"] = tr
        kw["Merging"] = m
    if v.get("outputs") is not None:        # "Outputs" present, with or without its optional "StemName"
        kw["Outputs"] = {} if v["outputs"] == "empty" else {"StemName": v["outputs"]}
    if case.get("shuffle") is not None:     # a dict / JSON file lists its keys in any order; only their presence and values matter
        import random
        items = list(kw.items())
        random.Random(case["shuffle"]).shuffle(items)
        kw = dict(items)
    return kw


def build_argv(case, filenames):
    p, v = case["present"], case["v"]
    argv = ["--density", repr(v["rho"]), "--stem-name", "cli"]
    if p["fn"]:
        argv += ["--real-space-function", FN[v["fn"]]]
    if p["rmax"]:
        argv += ["--Rmax", repr(v["rmax"])]
    if p["rpoints"]:
        argv += ["--Rpoints", str(int(v["rpoints"]))]
    if p["bcoh"]:
        argv += ["--bcoh_sqrd", repr(v["bcoh"])]
    if p["btot"]:
        argv += ["--btot_sqrd", repr(v["btot"])]
    if p["merge"]:
        argv += ["--merging", repr(v["Y"]["Offset"]), repr(v["Y"]["Scale"])]
    if p["rdelta"]:
        argv += ["--Rdelta", repr(v["rdelta"])]
    if p["ff"] and v["ff"] == 3:
        argv += ["--fourier-filter-cutoff", repr(v["cutoff"])]
    if p["lorch"] and v["lorch"] == 2:
        argv += ["--lorch-flag"]
    if p["lowq"] and v["lowq"] == 2:
        argv += ["--low-q-correction"]
    for fn_, d in zip(filenames, case.get("files", [])):
        ff = d.get("flagvals") or [0.0, 50.0, 0.0, 1.0, 0.0]
        argv += ["-f", fn_] + [repr(t) for t in ff] + [SL.KINDS[d["kind"]]]
    return argv


def attrs_of(st):
    mo = st.merged_opts
    Y = mo.get("Y", {}) if isinstance(mo, dict) else {}
    return [0.0, float(FN.index(st.real_space_function)), float(st.rmin), float(st.rmax), float(st.rdelta), float(st.density),
            float(st.bcoh_sqrd), float(st.btot_sqrd), float(bool(st.low_q_correction)), float(bool(st.lorch_flag)),
            0.0 if st.fourier_filter_cutoff is None else 1.0, 0.0 if st.fourier_filter_cutoff is None else float(st.fourier_filter_cutoff),
            0.0 if st.qmin is None else 1.0, 0.0 if st.qmin is None else float(st.qmin),
            0.0 if st.qmax is None else 1.0, 0.0 if st.qmax is None else float(st.qmax),
            float(Y.get("Scale", 1.0)), float(Y.get("Offset", 0.0)), 1.0 if "Q[S(Q)-1]" in mo else 0.0]


STATUS = {"ValueError": 1.0, "TypeError": 2.0, "KeyError": 3.0}
CALLS = {"read_all_data": 10, "merge_data": 1, "write_out_merged_sq": 2, "transform_merged": 3, "write_out_merged_gr": 4,
         "fourier_filter": 5, "apply_lorch": 6, "_add_keen_fq": 7, "_add_keen_gr": 8}


def write_inputs(case, d):
    names = []
    for i, ds in enumerate(case["files"]):
        fn_ = os.path.join(d, "in%d.dat" % i)
        with open(fn_, "w") as f:
            f.write("%d \n# Comment line\n" % len(ds["x"]))
            for a, b in zip(ds["x"], ds["y"]):
                f.write("{:.12f} {:.12f}\n".format(a, b))
        names.append(fn_)
    return names


def file_infos(case, names):
    out = []
    for n, d in zip(names, case["files"]):
        ff = d.get("flagvals") or [0.0, 50.0, 0.0, 1.0, 0.0]
        out.append({"Filename": n, "ReciprocalFunction": SL.KINDS[d["kind"]], "Qmin": ff[0], "Qmax": ff[1],
                    "Y": {"Offset": ff[2], "Scale": ff[3]}, "X": {"Offset": ff[4]}})
    return out


def listing(d):
    out = {}
    for n in sorted(os.listdir(d)):
        if not n.startswith("in"):
            out[n] = open(os.path.join(d, n), "rb").read().decode("latin1")
    return out


def library_run(pystog, kwargs, d, skiprows=None, errors=None):
    """drive the library with the same settings (the documented sequence)"""
    cwd = os.getcwd()
    os.chdir(d)
    try:
        st = pystog.StoG(**json.loads(json.dumps(kwargs)))
        if skiprows is None:
            st.read_all_data()
        else:
            st.read_all_data(skiprows=skiprows)
        st.merge_data()
        st.write_out_merged_sq()
        st.transform_merged()
        st.write_out_merged_gr()
        r, q, sq, g = st.r_master[st.gr_title], st.q_master[st.sq_title], st.sq_master[st.sq_title], st.gr_master[st.gr_title]
        if st.fourier_filter_cutoff is not None:
            q, sq, r, g = st.fourier_filter()
        if st.lorch_flag:
            r, g = st.apply_lorch(q, sq, r)
        st._add_keen_fq(q, sq)
        st._add_keen_gr(r, g)
    except Exception as e:
        if errors is None:
            raise
        errors.append("%s: %s" % (type(e).__name__, str(e)[:200]))
    finally:
        os.chdir(cwd)
    return listing(d)


def run_impl(pystog, case):
    import pystog.cli as cli
    import pystog.io as pio

    if case["kind"] == "setters":
        return SET.run_impl(pystog, case)
    if case["kind"] == "fileflag":
        vals, kind = case["v"]["vals"], case["v"]["kind"]
        name = (SL.KINDS + [case["v"].get("badname", "bogus(Q)")])[kind]
        args = pio.get_cli_parser().parse_args(["--density", "1.0", "-f", "x.dat"] + [repr(t) for t in vals] + [name])
        info = pio.parse_cli_args(args)["Files"][0]
        got = [info["Qmin"], info["Qmax"], info["Y"]["Offset"], info["Y"]["Scale"], info["X"]["Offset"]]
        st = pystog.StoG()
        probe = dict(info)
        probe["data"] = np.array([[1.0, 2.0, 3.0], [1.0, 1.1, 0.9]])
        if kind == 4:      # ... also when the entry's window happens to select no point at all
            empty = dict(info)
            empty["data"] = np.array([[100.0, 101.0, 102.0], [1.0, 1.1, 0.9]])
            try:
                pystog.StoG().add_dataset(empty)
                return {"fileflag": got + [99.0], "accepted_name": info["ReciprocalFunction"] + " (with a window that selects no point)"}
            except ValueError:
                pass
        try:
            st.add_dataset(probe)
        except ValueError as e:
            return {"fileflag": [1.0], "rejected": str(e)[:120]}
        name_ = info["ReciprocalFunction"]
        return {"fileflag": got + [float(SL.KINDS.index(name_)) if name_ in SL.KINDS else 99.0], "accepted_name": name_}
    if case["kind"] == "attrs":
        if case["mode"] == 1:
            kw = pio.parse_cli_args(pio.get_cli_parser().parse_args(build_argv(case, [])))
        else:
            kw = build_kwargs(case)
        try:
            st = pystog.StoG(**kw)
        except Exception as e:
            return {"status": STATUS.get(type(e).__name__, 9.0), "error": "%s: %s" % (type(e).__name__, e), "kwargs": kw}
        return {"attrs": attrs_of(st), "dr": np.asarray(st.dr, float).tolist(), "kwargs": kw, "stem": st.stem_name}
    base = os.path.join(C.SCRATCH, "c19_" + hashlib.sha256(json.dumps(case, sort_keys=True, default=str).encode()).hexdigest()[:12])
    shutil.rmtree(base, ignore_errors=True)
    da, db, dc = (os.path.join(base, n) for n in ("cli", "lib", "lib3"))
    for d in (da, db, dc):
        os.makedirs(d)
    names = write_inputs(case, da)
    for d in (db, dc):
        for n in names:
            shutil.copy(n, d)
    rel = [os.path.basename(n) for n in names]
    if case["mode"] == 1:
        args = pio.get_cli_parser().parse_args(build_argv(case, rel))
        kwargs = pio.parse_cli_args(args)
    else:
        kwargs = build_kwargs(case)
        kwargs["Files"] = file_infos(case, rel)
        if not (sum(case["present"].values()) == 2):      # (the shortest settings files leave the stem name to its default too)
            kwargs["Outputs"] = {"StemName": "cli"}
    calls = []

    class Rec(pystog.StoG):
        pass

    flowrec = {}

    def arrs(seq):
        return [np.asarray(v, float).tolist() for v in seq]

    def wrap(name):
        orig = getattr(pystog.StoG, name)

        def f(self, *a, **k):
            calls.append((name, k.get("skiprows")))
            if name in ("apply_lorch", "_add_keen_fq", "_add_keen_gr"):
                flowrec[name + "_args"] = arrs(a)
            out = orig(self, *a, **k)
            if name == "transform_merged":
                flowrec["merged"] = arrs([self.q_master[self.sq_title], self.sq_master[self.sq_title],
                                          self.r_master[self.gr_title], self.gr_master[self.gr_title]])
            if name in ("fourier_filter", "apply_lorch"):
                flowrec[name + "_ret"] = arrs(out)
            return out
        return f

    for name in CALLS:
        setattr(Rec, name, wrap(name))
    res = {"kwargs": json.loads(json.dumps(kwargs, default=str))}
    try:
        st = pystog.StoG(**json.loads(json.dumps(kwargs)))
        res["attrs"] = attrs_of(st)
        res["dr"] = np.asarray(st.dr, float).tolist()
    except Exception as e:
        res["status"] = STATUS.get(type(e).__name__, 9.0)
        res["error"] = "%s: %s" % (type(e).__name__, e)
    old, cwd = cli.StoG, os.getcwd()
    cli.StoG = Rec
    os.chdir(da)
    try:
        with contextlib.redirect_stdout(io.StringIO()):
            if case["mode"] == 1:
                # the flag form as a user runs it: the flags are on the command line
                argv_old = sys.argv
                sys.argv = ["pystog_cli"] + [str(a) for a in build_argv(case, rel)]
                try:
                    cli.pystog_cli()
                finally:
                    sys.argv = argv_old
            else:
                # the JSON form as a user runs it: the settings are in a file named on the command line
                cfg_path = os.path.join(base, "settings.json")
                with open(cfg_path, "w") as fh:
                    json.dump(kwargs, fh)
                argv_old = sys.argv
                sys.argv = ["pystog_cli", "--json", cfg_path]
                try:
                    cli.pystog_cli()
                finally:
                    sys.argv = argv_old
    except SystemExit as e:
        res["cli_error"] = "SystemExit: %s" % (e.code,)
    except Exception as e:
        res["cli_error"] = "%s: %s" % (type(e).__name__, str(e)[:200])
    finally:
        cli.StoG = old
        os.chdir(cwd)
    res["flow"] = flowrec
    res["plan"] = [float(CALLS[n] + (s if (n == "read_all_data" and s is not None) else (2 if n == "read_all_data" else 0))) for n, s in calls]
    res["cli_files"] = listing(da)
    if "status" not in res:
        intended = kwargs
        if case["mode"] == 1:   # the same settings written down independently of parse_cli_args
            p_, v_ = case["present"], case["v"]
            intended = {"Files": file_infos(case, rel), "NumberDensity": v_["rho"], "Outputs": {"StemName": "cli"},
                        "RealSpaceFunction": FN[v_["fn"]] if p_["fn"] else "g(r)", "Rmax": v_["rmax"] if p_["rmax"] else 50.0,
                        "LorchFlag": bool(p_["lorch"] and v_["lorch"] == 2), "OmittedXrangeCorrection": bool(p_["lowq"] and v_["lowq"] == 2),
                        "<b_coh>^2": v_["bcoh"] if p_["bcoh"] else 1.0, "<b_tot^2>": v_["btot"] if p_["btot"] else 1.0,
                        "Merging": {"Y": {"Offset": v_["Y"]["Offset"] if p_["merge"] else 0.0, "Scale": v_["Y"]["Scale"] if p_["merge"] else 1.0}}}
            if p_["rdelta"]:
                intended["Rdelta"] = v_["rdelta"]
            else:
                intended["Rpoints"] = int(v_["rpoints"]) if p_["rpoints"] else 5000
            if p_["ff"] and v_["ff"] == 3:
                intended["FourierFilter"] = {"Cutoff": v_["cutoff"]}
        try:
            with contextlib.redirect_stdout(io.StringIO()):
                e2, e3 = [], []
                res["lib_files"] = library_run(pystog, intended, db, errors=e2)
                res["lib3_files"] = library_run(pystog, intended, dc, skiprows=3, errors=e3)
                if e2:
                    res["lib_error"] = e2[0]
                if e3:
                    res["lib3_error"] = e3[0]
        except Exception as e:
            res["lib_error"] = "%s: %s" % (type(e).__name__, str(e)[:200])
    shutil.rmtree(base, ignore_errors=True)
    return res


def to_coq(case, res):
    if "exception" in res:
        return None
    if case["kind"] == "setters":
        return SET.to_coq(case, res)
    if case["kind"] == "fileflag":
        return [("chk_fileflag", ([], case["v"]["vals"], [case["v"]["kind"]], [res["fileflag"]]))]
    p, v = case["present"], case["v"]
    Y, F = v["Y"], v["F"]
    FY = None if not F else F.get("Y")
    zs = [p["fn"], v["fn"], p["rmin"], p["rmax"], p["rdelta"], p["rpoints"], p["rho"],
          v["lowq"] if p["lowq"] else 0, v["lorch"] if p["lorch"] else 0, v["ff"] if p["ff"] else 0,
          p["bcoh"], p["btot"], p["merge"], 0 if Y is None else 1, 1 if (Y and "Scale" in Y) else 0, 1 if (Y and "Offset" in Y) else 0,
          0 if F is None else 1, 0 if FY is None else 1, 1 if (FY and "Scale" in FY) else 0, 1 if (FY and "Offset" in FY) else 0,
          p["qmin"], p["qmax"], case["mode"]]
    sc = [v["rmin"], v["rmax"], v["rdelta"], float(v["rpoints"]), v["rho"], v["cutoff"], v["bcoh"], v["btot"],
          (Y or {}).get("Scale", 0.0), (Y or {}).get("Offset", 0.0), (FY or {}).get("Scale", 0.0), (FY or {}).get("Offset", 0.0), v["qmin"], v["qmax"]]
    if "status" in res:
        out = [[res["status"]], [], []]
        return [("chk_config", ([], sc, [int(z) for z in zs], out))]
    else:
        plan = res.get("plan", []) if "cli_error" not in res else []
        out = [res["attrs"], res["dr"], plan]
    encs = [("chk_config", ([], sc, [int(z) for z in zs], out))]
    fr = res.get("flow") or {}
    if "cli_error" not in res and "merged" in fr and "_add_keen_gr_args" in fr and "_add_keen_fq_args" in fr:
        fo = fr.get("fourier_filter_ret")
        lo = fr.get("apply_lorch_ret")
        la = fr.get("apply_lorch_args")
        fl = fr["merged"] + (fo or [[], [], [], []]) + (lo or [[], []]) + (la or [[], [], []]) + fr["_add_keen_fq_args"] + fr["_add_keen_gr_args"]
        encs.append(("chk_cliflow", (fl, [], [1 if fo else 0, 1 if lo else 0], [])))
    return encs


def nontrivial(case, res):
    if case["kind"] == "setters":
        return "exception" not in res and SET.nontrivial(case, res)
    return "exception" not in res and sum(case["present"].values()) > 0


def oracle(pystog, case, res):
    """given keys land in the corresponding attribute with the given value; absent keys give the documented default; an unknown
    real-space function / a non-boolean flag raises; dr starts at Rmin, has constant step Rdelta (or Rmax/Rpoints) and covers Rmax;
    the CLI produces exactly the files (names and bytes) of the library driven with the same settings"""
    if "exception" in res:
        return "harness could not run the case: %s %s" % (res["exception"], res["message"])
    if case["kind"] == "setters":
        return SET.oracle(pystog, case, res)
    if case["kind"] == "fileflag":
        vals, kind = case["v"]["vals"], case["v"]["kind"]
        if kind == 4:
            return None if "rejected" in res else "the unknown ReciprocalFunction name %r given with -f was accepted instead of rejected" % res.get("accepted_name")
        if "rejected" in res:
            return "a valid -f flag was rejected: %s" % res["rejected"]
        if res["fileflag"] != vals + [float(kind)]:
            return "-f NAME QMIN QMAX YOFFSET YSCALE QOFFSET TYPE: parsed as (Qmin, Qmax, Y.Offset, Y.Scale, X.Offset, type) = %r, typed %r" % (res["fileflag"], vals + [float(kind)])
        return None
    p, v = case["present"], case["v"]
    bad_fn = bool(p["fn"] and v["fn"] == 3)
    bad_flag = bool((p["lowq"] and v["lowq"] == 3) or (p["lorch"] and v["lorch"] == 3))
    if case["kind"] == "attrs":
        if bad_fn or bad_flag:
            if "status" not in res:
                return "invalid %s was accepted silently" % ("RealSpaceFunction" if bad_fn else "non-boolean flag")
            return None
        if "status" in res:
            return "valid configuration rejected: %s (kwargs %s)" % (res["error"], json.dumps(res["kwargs"], default=str)[:300])
        a = res["attrs"]
        want_stem = v["outputs"] if v.get("outputs") not in (None, "empty") else "out"
        if case["mode"] == 0 and "stem" in res and res["stem"] != want_stem:
            return "Outputs %s: the stem name is %r, expected %r" % ({None: "absent", "empty": "present without StemName"}.get(v.get("outputs"), "with StemName"), res["stem"], want_stem)
        rmax = v["rmax"] if p["rmax"] else 50.0
        if case["mode"] == 1:    # flag form: the parser's documented defaults (Rpoints 5000 -> step Rmax/5000)
            rp = v["rpoints"] if p["rpoints"] else 5000
            want_rdelta = v["rdelta"] if p["rdelta"] else rmax / rp
        else:
            want_rdelta = v["rdelta"] if p["rdelta"] else (rmax / v["rpoints"] if p["rpoints"] else 0.01)
        want = {1: v["fn"] if p["fn"] else 0, 2: v["rmin"] if p["rmin"] else 0.0, 3: rmax,
                4: want_rdelta,
                5: v["rho"] if p["rho"] else 1.0, 6: v["bcoh"] if p["bcoh"] else 1.0, 7: v["btot"] if p["btot"] else 1.0,
                8: float(p["lowq"] and v["lowq"] == 2), 9: float(p["lorch"] and v["lorch"] == 2),
                10: float(bool(p["ff"] and v["ff"] == 3)), 12: float(bool(p["merge"] and p["qmin"])), 14: float(bool(p["merge"] and p["qmax"]))}
        names = {1: "RealSpaceFunction", 2: "Rmin", 3: "Rmax", 4: "Rdelta/Rpoints", 5: "NumberDensity", 6: "<b_coh>^2", 7: "<b_tot^2>",
                 8: "OmittedXrangeCorrection", 9: "LorchFlag", 10: "FourierFilter.Cutoff", 12: "Merging.Transform.Qmin", 14: "Merging.Transform.Qmax"}
        for i, w in want.items():
            if a[i] != float(w):
                return "%s: attribute is %r, expected %r (kwargs %s)" % (names[i], a[i], float(w), json.dumps(res["kwargs"], default=str)[:300])
        if a[10] and a[11] != v["cutoff"]:
            return "FourierFilter.Cutoff value not stored"
        Yg = (v["Y"] or {}) if p["merge"] else {}
        if case["mode"] == 1 and p["merge"]:
            Yg = {"Scale": v["Y"]["Scale"], "Offset": v["Y"]["Offset"]}
        if a[16] != float(Yg.get("Scale", 1.0)) or a[17] != float(Yg.get("Offset", 0.0)):
            return "Merging.Y: scale/offset in effect are (%r, %r), expected (%r, %r) (kwargs %s)" % (
                a[16], a[17], float(Yg.get("Scale", 1.0)), float(Yg.get("Offset", 0.0)), json.dumps(res["kwargs"], default=str)[:300])
        dr = np.array(res["dr"])
        rmin, rdelta = a[2], a[4]
        if len(dr) == 0 or dr[0] != rmin:
            return "r grid does not start at Rmin"
        if len(dr) > 1 and (np.abs(np.diff(dr) - rdelta) > 1e-9 * (1 + abs(rdelta))).any():
            return "r grid step is not Rdelta"
        if dr[-1] < rmax - 1e-9 * (1 + abs(rmax)) or dr[-1] > rmax + rdelta * (1 + 1e-9):
            return "r grid does not cover Rmax exactly once (last point %r, Rmax %r, step %r)" % (float(dr[-1]), rmax, rdelta)
        return None
    if "status" in res:
        return None
    # the entry point and the library driven with the same settings must behave alike: a step that
    # fails must fail in both (with the same error), and the files written up to then must agree
    ce, le, l3 = res.get("cli_error"), res.get("lib_error"), res.get("lib3_error")
    if ce is not None and ce != le and ce != l3:
        return "pystog_cli raised %s (form %s, FourierFilter %s, LorchFlag %s) where driving the library with the same settings %s" % (
            ce, case["desc"]["form"], res["kwargs"].get("FourierFilter", "absent"), res["kwargs"].get("LorchFlag", "absent"),
            "did not raise" if le is None else "raised %s" % le)
    if ce is None and le is not None and l3 is not None:
        return "driving the library with the same settings raised %s where pystog_cli did not raise" % le
    if "lib_files" not in res:
        return "driving the library with the same settings raised %s" % le
    a, b = res["cli_files"], res["lib_files"]
    if ce != le and ce == l3 and all(a.get(n) == res["lib3_files"].get(n) for n in set(a) | set(res["lib3_files"])):
        return "CLI output differs from the library only because the CLI reads input with skiprows=3 (first data row of each file dropped): the library %s, the CLI %s" % (
            "raised %s" % le if le else "did not raise", "raised %s" % ce if ce else "did not raise")
    if sorted(a) != sorted(b):
        return "CLI wrote files %r, the library %r" % (sorted(a), sorted(b))
    diff = [n for n in a if a[n] != b[n]]
    if diff:
        if all(res["cli_files"][n] == res["lib3_files"].get(n) for n in a):
            return "CLI output differs from the library only because the CLI reads input with skiprows=3 (first data row of each file dropped): %s" % diff[0]
        d3 = [n for n in a if a[n] != res["lib3_files"].get(n)]
        return "CLI and library outputs differ in %r (even when the library reads with skiprows=3 like the CLI)" % d3[:3]
    return None


def known_match(case, res, msg, finding):
    return finding.get("id") == "K-C19-skiprows" and msg.startswith("CLI output differs from the library only because the CLI reads input with skiprows=3")
