"""C17 -- post-merge scale/offset options compose as documented; stored curves agree."""
import itertools

import numpy as np

from . import c10 as B
from . import stoglib as SL

ID = "C17"
CHECKER = "chk_merge"
THEOREMS = ['C17_stored_F_formula', 'C17_stored_F_readable', 'C17_stored_S_formula', 'C17_curves_consistent', 'C17_absent_keys_are_defaults', 'C17_nan_scrub_identity', 'C17_merge_pieces', 'C17_merge_items', 'C17_merge_data', 'C17_merge_data_state']
RULE = ("every subset of the documented option keys (Merging, Merging.Y, .Y.Scale, .Y.Offset, Merging['Q[S(Q)-1]'], its Y, .Scale, .Offset) "
        "-- exhaustive -- x sampled scale/offset values x sampled merged data with Q>0; non-trivial = some option changes the curve; "
        "distinct by input hash")


def option_shapes():
    shapes = [None]
    ysets = [None, {}, {"Scale"}, {"Offset"}, {"Scale", "Offset"}]
    fsets = [None, "noY", set(), {"Scale"}, {"Offset"}, {"Scale", "Offset"}]
    for y in ysets:
        for f in fsets:
            shapes.append((y, f))
    return shapes


def build(shape, rng):
    if shape is None:
        return None
    y, f = shape
    m = {}
    if y is not None:
        m["Y"] = {k: (rng.choice([1.0, 2.0, 0.0, -1.0, rng.uniform(0.5, 1.5)]) if k == "Scale" else rng.choice([0.0, 0.25, rng.uniform(-0.3, 0.3)])) for k in sorted(y)}
    if f is not None:
        m["Q[S(Q)-1]"] = {} if f == "noY" else {"Y": {k: (rng.choice([rng.uniform(0.5, 1.5), 1.0, 0.0]) if k == "Scale" else rng.choice([rng.uniform(-0.3, 0.3), 0.0])) for k in sorted(f)}}
    return m


def generate(rng, tier):
    reps = 1 if tier == "quick" else 6
    cases = []
    for _ in range(reps):
        for shape in option_shapes():
            cfg = SL.gen_config(rng, global_window=False)
            cfg["Merging"] = build(shape, rng)
            k = rng.choice([1, 2, 3])
            ds = []
            for _j in range(k):
                d = SL.gen_dataset(rng, tier, offsets=False)
                d["x"] = [abs(v) + 0.05 for v in d["x"]]
                ds.append(SL.finish_dataset(d, cfg["mat"]))
            reassigned = False
            if cfg["Merging"] is not None and rng.random() < 0.35:    # an earlier, different assignment of the options
                cfg["Merging_first"] = {"Y": {"Scale": 1.7, "Offset": 0.3}, "Q[S(Q)-1]": {"Y": {"Scale": 0.6, "Offset": -0.2}}}
                reassigned = True
            case = {"cfg": cfg, "datasets": ds, "desc": {"shape": repr(shape), "n_datasets": k, "options_reassigned": reassigned}}
            idx = len(cases)
            if idx % 4 == 1 and cfg["Merging"]:
                # the option values arrive as numpy scalars of another width (np.float32 from single-precision data, np.int64 counts)
                def quant(v):
                    return {k_: quant(x_) for k_, x_ in v.items()} if isinstance(v, dict) else (round(float(v) * 4) / 4 or 0.25)
                cfg["Merging"] = quant(cfg["Merging"])
                if "Merging_first" in cfg:
                    del cfg["Merging_first"]
                    case["desc"]["options_reassigned"] = False
                cfg["opt_types"] = "float32" if idx % 8 == 1 else "int64"
                case["desc"]["option_value_types"] = cfg["opt_types"]
            if idx % 4 == 3 and ds:
                xs_all = sorted(v for d_ in ds for v in d_["x"])
                if len(xs_all) >= 4:      # a window cutting into the stored points, set after they were added
                    case["late_window"] = [round(xs_all[1], 2) + 0.001, round(xs_all[-2], 2) - 0.001]
                    case["desc"]["late_window"] = True
            cases.append(case)
    # fixed: a scale of exactly 0 (a legitimate value: it is not "absent") at either level, and a negative one
    for mo in ({"Y": {"Offset": 0.3, "Scale": 1.5}, "Q[S(Q)-1]": {"Y": {"Offset": 1.25, "Scale": 3.0}}},      # the keys in alphabetical order
               {"Y": {"Scale": 0.0, "Offset": 0.25}}, {"Y": {"Scale": 0.0}}, {"Q[S(Q)-1]": {"Y": {"Scale": 0.0, "Offset": 0.1}}},
               {"Y": {"Scale": -1.0, "Offset": 0.5}, "Q[S(Q)-1]": {"Y": {"Scale": 1.5, "Offset": -0.5}}}):
        cfg = SL.gen_config(rng, global_window=False)
        cfg["Merging"] = mo
        ds = []
        for _j in range(2):
            d = SL.gen_dataset(rng, tier, offsets=False)
            d["x"] = [abs(v) + 0.05 for v in d["x"]]
            ds.append(SL.finish_dataset(d, cfg["mat"]))
        cases.append({"cfg": cfg, "datasets": ds, "desc": {"shape": "fixed " + repr(sorted(mo)), "n_datasets": 2, "options_reassigned": False, "zero_scale": True}})
    # fixed: three banks on one grid and a fourth one sampled more finely than the 0.01 resolution (3 to 5 coincident points per Q)
    for mo in ({"Y": {"Scale": 1.25, "Offset": 0.5}, "Q[S(Q)-1]": {"Y": {"Scale": 2.0, "Offset": -0.25}}}, {"Q[S(Q)-1]": {"Y": {"Scale": 0.5}}}):
        cfg = SL.gen_config(rng, global_window=False)
        cfg["Merging"] = mo
        ds = []
        for j in range(4):
            xs_ = [0.3 + 0.1 * i_ for i_ in range(6)] if j < 3 else [0.392 + 0.004 * i_ for i_ in range(6)]
            d = {"x": xs_, "kind": j % 4, "style": "exact", "s_true": [1.0 + 0.2 * (j + 1) * (-1) ** i_ + 0.01 * i_ * j for i_ in range(6)],
                 "dy": [0.01 * (1 + j + i_) for i_ in range(6)], "Qmin": None, "Qmax": None, "Y": None, "X": None}
            ds.append(SL.finish_dataset(d, cfg["mat"]))
        cases.append({"cfg": cfg, "datasets": ds, "desc": {"shape": "fixed " + repr(sorted(mo)), "n_datasets": 4, "options_reassigned": False,
                                                          "coincident_points": "3 to 5 per Q"}})
        cases.append({"cfg": cfg, "datasets": ds[:1], "assign_points": True,
                      "desc": {"shape": "fixed " + repr(sorted(mo)), "n_datasets": 1, "options_reassigned": False, "points_assigned_through_attributes": True}})
    return cases


run_impl = B.run_impl
to_coq = B.to_coq


def nontrivial(case, res):
    return "exception" not in res and not res.get("empty") and bool(case["cfg"].get("Merging"))


def oracle(pystog, case, res):
    """stored Q[S(Q)-1] = cF*Q*(aS*mean + bS - 1) + dF, stored S(Q) = that/Q + 1 (identity for absent keys), hence
    Q[S-1] = Q*(S-1) on the common grid; no NaN"""
    if "exception" in res:
        return "raised %s: %s (options %s)" % (res["exception"], res["message"], case["desc"]["shape"])
    if res.get("empty"):
        return None
    mo = case["cfg"].get("Merging") or {}
    aS = (mo.get("Y") or {}).get("Scale", 1.0)
    bS = (mo.get("Y") or {}).get("Offset", 0.0)
    fy = (mo.get("Q[S(Q)-1]") or {}).get("Y") or {}
    cF, dF = fy.get("Scale", 1.0), fy.get("Offset", 0.0)
    q, sq, fq = np.array(res["q"]), np.array(res["sq"]), np.array(res["fq"])
    x, y = np.array(res["pre"]["sq"][0]), np.array(res["pre"]["sq"][1])
    if not case.get("late_window") and not np.array_equal(q, np.unique(x)):
        return "the merged grid is not the set of distinct stored Q values (%d merged points, %d distinct stored Q; options %s)" % (len(q), len(np.unique(x)), case["desc"]["shape"])
    mean = np.array([y[x == v].mean() for v in q])
    wantF = cF * q * (aS * mean + bS - 1) + dF
    sc = 1 + np.abs(wantF) + np.abs(cF * q) * (np.abs(aS * mean) + abs(bS) + 1) + abs(dF)
    if (np.abs(fq - wantF) > 1e-9 * sc).any():
        return "stored Q[S(Q)-1] is not cF*Q*(aS*mean+bS-1)+dF (options %s)" % case["desc"]["shape"]
    wantS = wantF / q + 1
    if (np.abs(sq - wantS) > 1e-9 * (sc / q + 1)).any():
        return "stored S(Q) is not stored Q[S(Q)-1]/Q + 1 (options %s)" % case["desc"]["shape"]
    if (np.abs(fq - q * (sq - 1)) > 1e-9 * sc).any():
        return "stored curves disagree: Q[S(Q)-1] != Q*(S(Q)-1)"
    if np.isnan(sq).any() or np.isnan(fq).any():
        return "NaN in a stored curve"
    # merging again on the same object must store the same two curves (the formula refers to the data, not to the call count)
    st, _ = B.prepare(pystog, case)
    st.merge_data()
    st.merge_data()
    q2, s2, f2 = B.merged(st)
    if not (np.array_equal(q2, q) and np.allclose(s2, sq, rtol=1e-9, atol=1e-12) and np.allclose(f2, fq, rtol=1e-9, atol=1e-12)):
        return "a second merge_data on the same object stores different curves (options %s)" % case["desc"]["shape"]
    return None
