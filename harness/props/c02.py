"""C02 -- the core transform is the trapezoid sine quadrature on any grid; linear, odd, zero at 0."""
import numpy as np

from . import ftlib as F

ID = "C02"
CHECKER = "chk_ft"
THEOREMS = ['C02_ft_is_trapz', 'C02_trapz_weights', 'C02_tweights_length', 'C02_tweights_first', 'C02_tweights_interior', 'C02_tweights_last', 'C02_tweights_short', 'C02_zero_at_0', 'C02_odd', 'C02_linear', 'C02_fortran_core', 'C02_fortran_core_lorch', 'C02_fortran_g', 'C02_fortran_g_lorch']
RULE = ("strictly increasing grids (uniform from 0 / offset / jittered / strongly non-uniform; sizes 2,3,5,7,11 over-represented), "
        "output grids incl. 0, negative and repeated abscissae, smooth / random / 6-decade / integer / single-spike data; "
        "non-trivial = some output non-zero; distinct by input hash")


def generate(rng, tier):
    n = 120 if tier == "quick" else 900
    cases = [F.gen_ft_case(rng, tier, channel=0, win="none") for _ in range(n)]
    for i, c in enumerate(cases):
        if i % 12 == 5 and len(c["xin"]) >= 3:
            # finite data whose uncertainty vector carries "unknown" flags (inf / NaN): the value is still the integral over every point
            dy = [0.05 + 0.01 * (j % 5) for j in range(len(c["xin"]))]
            dy[0] = float("inf") if i % 24 == 5 else float("nan")
            dy[len(dy) // 2] = float("nan") if i % 24 == 5 else float("inf")
            c["dy"] = dy
            c["desc"]["dy"] = "nonfinite entries"
    for i, c in enumerate(cases):
        if i % 12 == 9 and len(c["xin"]) >= 3:
            # a window far from the origin compared with its spacing (|x| / dx ~ 1e7-1e8): the panel widths are still exact differences
            x0, h = (5000.0, 1e-4) if (i // 12) % 2 == 0 else (1.0e6, 1e-2)
            c["xin"] = [x0 + j * h for j in range(len(c["xin"]))]
            c["xout"] = [0.01 + 0.37 * j for j in range(len(c["xout"]))]
            c["int_dtype"] = [False, c["int_dtype"][1], False]
            c["desc"]["grid"] = "far from the origin"
        if i % 12 == 2 and len(c["xin"]) >= 3 and c["dy"] is None:
            # a dead sample (NaN) in the data and no uncertainties given: the returned uncertainty is still zero
            c["yin"] = list(c["yin"])
            c["yin"][len(c["yin"]) // 2] = float("nan")
            c["desc"]["data"] = str(c["desc"]["data"]) + "+nan sample"
    for i, c in enumerate(cases):
        if i % 12 == 7 and len(c["xin"]) >= 2 and min(c["xin"]) > 0 and c["xmin"] is None:
            # a lower limit given explicitly at or below the origin on a grid that starts above it: the limits only select points, the
            # sum is still the one over the input grid
            c["xmin"] = 0.0 if (i // 12) % 2 == 0 else -1.5
            c["desc"]["window"] = "explicit lower limit at or below 0"
    return cases


run_impl = F.run_ft
to_coq = F.ft_to_coq
nontrivial = F.nontrivial_ft


def oracle(pystog, case, res):
    """independent pure-Python trapezoid of y(x) sin(x x') with exact summation (1e-9 of the L1 term magnitude);
    exactly 0 at x'=0; odd in x'; linear in the data"""
    if "exception" in res:
        return "fourier_transform raised %s: %s" % (res["exception"], res["message"])
    x, y, xo = case["xin"], case["yin"], case["xout"]
    yo = res["yout"]
    if len(yo) != len(xo):
        return "output length differs from the output grid"
    if case["dy"] is None and any(v != 0 for v in res["eout"]):
        return "no uncertainties were given but the returned uncertainty is not zero: %r" % res["eout"][:3]
    if any(v != v for v in y):      # a NaN sample: the value is NaN wherever that sample has weight; nothing further to compare
        return None
    for xp, v in zip(xo, yo):
        want, mag = F.trapz_sine(x, y, xp)
        if abs(v - want) > 1e-9 * mag + 1e-300:
            return "value %r at x'=%r, trapezoid quadrature gives %r" % (v, xp, want)
        if xp == 0 and v != 0:
            return "not exactly zero at x'=0: %r" % v
    _, mag = F.trapz_sine(x, y, 1.0)
    _, neg, _ = F.call_ft(pystog, case, xout=[-v for v in xo])
    if (np.abs(neg + np.array(yo)) > 1e-9 * mag + 1e-300).any():
        return "not odd in x'"
    y2 = [(-1) ** i * 0.5 + 0.1 * i for i in range(len(y))]
    a, b = 1.7, -0.3
    _, mag2 = F.trapz_sine(x, y2, 1.0)
    _, t2, _ = F.call_ft(pystog, case, yin=y2)
    _, tc, _ = F.call_ft(pystog, case, yin=[a * u + b * v for u, v in zip(y, y2)])
    if (np.abs(tc - (a * np.array(yo) + b * t2)) > 1e-9 * (abs(a) * mag + abs(b) * mag2) + 1e-300).any():
        return "not linear in the data"
    return None
