"""C08 -- the Fourier filter splits the data exactly and removes only the low-r signal."""
import math

import numpy as np

from . import convlib as L
from . import filtlib as FL
from . import ftlib as F

ID = "C08"
CHECKER = "chk_filter"
THEOREMS = ['C08_split_core', 'C08_split_variants', 'C08_unc_quadrature_core', 'C08_unc_quadrature_variants', 'C08_removed_is_lowr_transform', 'C08_beyond_cutoff_irrelevant', 'C08_beyond_cutoff_irrelevant_variants', 'C08_beyond_cutoff_irrelevant_raw', 'C08_beyond_cutoff_irrelevant_wrap_real', 'C08_zero_lowr_untouched', 'C08_returned_is_transform_of_corrected', 'C08_returned_is_transform_of_corrected_S', 'C08_returned_is_transform_of_corrected_all', 'C08g_removed_is_cropped_lowr_transform', 'C08g_removed_is_lowr_transform', 'C08g_full_range_ok_of_order', 'C08g_beyond_cutoff_irrelevant', 'C08g_beyond_cutoff_irrelevant_variants', 'C08g_returned_is_transform_of_corrected', 'C08g_corrected_is_difference', 'C08g_variant_normal_form', 'C08g_variant_normal_form_binary64', 'C08g_beyond_cutoff_irrelevant_binary64', 'C08o_omitted_term_in_G_to_F', 'C08o_omitted_term_in_g_to_F', 'C08o_first_transformed_value', 'C08o_removed_omitted_term']
RULE = ("all 12 variants x cutoffs on / between grid points / beyond the grid / below the second point, with and without uncertainties, "
        "sampled physical (g, Q[S-1]) pairs converted to each variant's functions; the full 9-tuple is compared; "
        "non-trivial = removed component non-zero; distinct by input hash")


def generate(rng, tier):
    reps = 4 if tier == "quick" else 20
    cases = []
    for rep in range(reps):
        for R in range(3):
            for Q in range(4):
                # the transform options reach both transforms of every variant
                opt = (rep + Q + R) % 4 if rep else 0
                c = FL.gen_filter_case(rng, tier, R, Q, lorch=bool(opt & 1), omitted=bool(opt & 2))
                c["flagform"] = ["bool", "npbool", "bool", "int"][(rep + R) % 4]
                if rep < 4:   # every variant sees every present/absent combination of the two input uncertainties, with non-zero values
                    FL.force_uncertainties(rng, c, dgr=bool(rep & 1) or rep == 0, dy=bool(rep & 2) or rep == 0)
                if rep == 2 and len(c["r"]) > 3:   # points at negative r lie outside [0, cutoff] like those beyond the cutoff
                    sh = c["r"][1] * 1.5
                    c["r"] = [v - sh for v in c["r"]]
                    c["cutoff"] = max(c["cutoff"] - sh, c["r"][-1] * 0.5)
                    c["desc"]["negative_r"] = True
                if rep == 3 and len(c["q"]) >= 4 and (Q + R) % 2 == 0:
                    # a Q grid that is not stored in ascending order (two banks, the high-Q bank first; or descending)
                    k = len(c["q"]) // 2
                    perm = (list(range(k, len(c["q"]))) + list(range(k))) if (Q + R) % 4 == 0 else list(range(len(c["q"]) - 1, -1, -1))
                    for key in ("q", "y", "dy"):
                        if c[key] is not None:
                            c[key] = [c[key][i] for i in perm]
                    for key in ("f", "df"):
                        if c["common"][key] is not None:
                            c["common"][key] = [c["common"][key][i] for i in perm]
                    c["desc"]["q_order"] = "two banks" if (Q + R) % 4 == 0 else "descending"
                if rep == 1:  # a grid point exactly on the cutoff
                    c["cutoff"] = c["r"][max(1, len(c["r"]) // 2)]
                    c["desc"]["cutoff"] = "grid"
                # Lorch on a low-r section whose largest abscissa is 0 divides pi by zero: outside every property's domain
                low_ = [v for v in c["r"] if 0.0 <= v <= c["cutoff"]]
                if not low_ and any(v >= 0.0 for v in c["r"]):
                    # no grid point in [0, cutoff]: there is no low-r section to speak of (the filter raises on the empty selection) --
                    # the cutoff is moved onto the first non-negative grid point
                    c["cutoff"] = min(v for v in c["r"] if v >= 0.0)
                    c["desc"]["cutoff"] = "grid"
                    low_ = [c["cutoff"]]
                if c["lorch"] and (not low_ or max(low_) <= 0.0):
                    c["lorch"] = False
                    c["desc"]["lorch"] = False
                cases.append(c)
    return cases


run_impl = FL.run_filter
to_coq = FL.filter_to_coq


def nontrivial(case, res):
    return "exception" not in res and any(v != 0 for v in res["y_ft"])


def additive(Q, m):
    """constant c such that (function - c) is additive: S-1, F, FK, DCS-btot"""
    return [1.0, 0.0, 0.0, m["btot"]][Q]


def oracle(pystog, case, res):
    """removed + corrected = input in the function's additive sense; dcorr = sqrt(d^2 + dft^2); removed component unchanged when
    real-space data beyond the cutoff change; corrected = input when g vanishes below the cutoff; returned real-space function =
    transform (public method) of the returned corrected function; removed = transform of the low-r part alone"""
    if "exception" in res:
        return "raised %s: %s" % (res["exception"], res["message"])
    m, R, Q = case["mat"], case["R"], case["Q"]
    if any(res[n] is None for n in FL.OUT):
        return "an output is None"
    o = {n: np.array(res[n], float) for n in FL.OUT}
    yin = np.array(case["y"], float)
    c = additive(Q, m)
    if o["y"].shape != yin.shape:
        return "corrected function has the wrong length"
    scale = 1 + np.abs(yin) + np.abs(o["y_ft"])
    if (np.abs((o["y_ft"] - c) + (o["y"] - c) - (yin - c)) > 1e-9 * scale).any():
        return "removed + corrected does not add back to the input (%s)" % case["desc"]["variant"]
    dyin = np.zeros_like(yin) if case["dy"] is None else np.array(case["dy"], float)
    want = np.sqrt(dyin ** 2 + o["dy_ft"] ** 2)
    if (np.abs(o["dy"] - want) > 1e-9 * (want + 1e-300)).any():
        return "uncertainties do not combine in quadrature"
    # beyond the cutoff: change the real-space input there
    r = np.array(case["r"], float)
    gr2 = np.array(case["gr"], float).copy()
    beyond = r > case["cutoff"]
    if beyond.any():
        gr2[beyond] = gr2[beyond] * -2.0 + 5.0
        o2 = FL.call_filter(pystog, case, gr=gr2)
        if not (np.array_equal(o2[1], o["y_ft"]) and np.array_equal(o2[3], o["y"]) and np.array_equal(o2[6], o["dy_ft"])):
            return "real-space data beyond the cutoff influence the removed / corrected component"
    # g = 0 below the cutoff -> nothing removed (in g(r) terms: G = -4 pi rho r, GK = -bcoh)
    g0 = np.where(~beyond, 0.0, np.array(case["common"]["g"]))
    gin0 = L.from_base(1, R, r, g0, m)
    o3 = FL.call_filter(pystog, case, gr=gin0)
    # (with the omitted-range option the r -> Q transform adds its model term for r below the first grid point, data or no data)
    with np.errstate(all="ignore"):
      if not (case["omitted"] and min(case["r"]) != 0.0):
        # the low-r signal is g+1-1 = ... : the code transforms (g_tmp + 1) - 1 = g, so g = 0 there removes nothing
        if (np.abs(o3[1] - c) > 1e-9 * (1 + np.abs(c))).any():
            return "data vanishing in g(r) below the cutoff still produce a removed component"
        if (np.abs(o3[3] - yin) > 1e-9 * (1 + np.abs(yin))).any():
            return "data vanishing in g(r) below the cutoff change the reciprocal-space function"
    opts = FL.option_kwargs(case)
    # removed component = sine transform (public method) of the real-space signal on the closed interval [0, cutoff] alone
    keep = [i for i, v in enumerate(case["r"]) if 0.0 <= v <= case["cutoff"]]
    if keep and all(v > 0 for v in case["r"]) or (keep and R == 0):
        tr0 = pystog.Transformer()
        cv0 = pystog.Converter()
        kw0 = opts
        rr = np.array([case["r"][i] for i in keep], float)
        gg_ = np.array([case["gr"][i] for i in keep], float)
        dg_ = None if case["dgr"] is None else np.array([case["dgr"][i] for i in keep], float)
        if R != 0:
            gg_, dg_ = getattr(cv0, "%s_to_g" % L.GN[R])(rr, gg_, dg_, **kw0)
        _, f_rm, df_rm = tr0.g_to_F(rr, gg_ + 1, np.array(case["q"], float), dg_, **kw0)
        if Q != 1:
            f_rm, df_rm = getattr(cv0, "F_to_%s" % L.RN[Q])(np.array(case["q"], float), f_rm, df_rm, **kw0)
        mag_rm = 1 + np.abs(o["y_ft"]) + np.abs(np.asarray(f_rm, float))
        if (np.abs(np.asarray(f_rm, float) - o["y_ft"]) > 1e-9 * mag_rm).any():
            return "removed component is not the transform of the real-space signal on [0, cutoff] (cutoff %r %s a grid point)" % (
                case["cutoff"], "is" if case["cutoff"] in case["r"] else "is not")
        if (np.abs(np.asarray(df_rm, float) - o["dy_ft"]) > 1e-9 * (1e-300 + np.abs(o["dy_ft"]) + np.abs(np.asarray(df_rm, float)))).any():
            return "uncertainty of the removed component is not that of the transform of the [0, cutoff] signal"
    # with the omitted-range option the removed component carries, on top of the plain one, the transform of the linear-to-zero model of the
    # real-space signal below the first r point -- damped like the data when Lorch is on (independent Gauss-Legendre integral)
    if case["omitted"] and keep and min(case["r"]) > 0 and sorted(case["r"]) == list(case["r"]) and not case.get("r_f32"):
        from . import c15 as LQ
        o_off = FL.call_filter(pystog, dict(case, omitted=False))
        xq_ = np.array(case["q"], float)
        with np.errstate(all="ignore"):
            F_on = L.from_base(0, 1, xq_, L.to_base(0, Q, xq_, o["y_ft"], m), m)
            F_off = L.from_base(0, 1, xq_, L.to_base(0, Q, xq_, np.asarray(o_off[1], float), m), m)
        r_lo, r_hi = case["r"][keep[0]], case["r"][keep[-1]]
        g_lo = float(L.to_base(1, R, np.array([r_lo]), np.array([case["gr"][keep[0]]], float), m)[0])
        s0_ = 4 * math.pi * m["rho"] * g_lo + 1.0
        want_c = np.array([math.pi / 2 * LQ.model_term(r_lo, s0_, r_hi, float(v), bool(case["lorch"])) for v in xq_])
        ok_pts = np.isfinite(F_on - F_off) & (xq_ > 0)
        # (plus the rounding of the closed forms, which cancel catastrophically for small r_first * Q)
        tol_c = 1e-6 * (np.abs(want_c).max() + np.abs(F_on - F_off).max()) + 1e-12 + 8e-15 * np.array(
            [LQ.cancel_mag(r_lo, s0_, r_hi, float(v), bool(case["lorch"])) if v > 0 else 0.0 for v in xq_])
        if case["lorch"]:
            ok_pts &= np.abs(np.abs(xq_) - math.pi / r_hi) > 1e-3
        if (np.abs((F_on - F_off) - want_c) > tol_c)[ok_pts].any():
            j_ = int(np.argmax(np.where(ok_pts, np.abs((F_on - F_off) - want_c) - tol_c, -np.inf)))
            return "omitted-range term of the removed component at Q=%r is %r, the integral of the linear-to-zero model below r=%r gives %r (lorch=%s)" % (
                float(xq_[j_]), float((F_on - F_off)[j_]), r_lo, float(want_c[j_]), case["lorch"])
    # returned real-space function = transform of the returned corrected function
    tr = pystog.Transformer()
    kw = opts
    f = getattr(tr, "%s_to_%s" % (L.RN[Q], L.GN[R]))
    _, g2, dg2 = f(o["q"], o["y"], o["r"], o["dy"], **kw)
    xq = o["q"]
    Fc = L.from_base(0, 1, xq, L.to_base(0, Q, xq, o["y"], m), m)
    mag = sum(abs(xq[i + 1] - xq[i]) * (abs(Fc[i + 1]) + abs(Fc[i])) / 2 for i in range(len(xq) - 1)) * 2 / math.pi
    with np.errstate(all="ignore"):
        conv = L.deriv(1, 1, R, np.where(o["r"] > 0, o["r"], 1.0), m)
        bad = np.abs(np.asarray(g2, float) - o["g"]) > 1e-9 * (mag * conv + 1 + np.abs(o["g"]))
        bad = bad & (o["r"] > 0)      # at r <= 0 the g(r) representation the filter works in holds only the conventional value
    if bad.any():
        return "returned real-space function is not the transform of the returned corrected function (lorch=%s omitted=%s)" % (case["lorch"], case["omitted"])
    # ... and its uncertainty (the last return value) that of the same transform
    with np.errstate(all="ignore"):
        dg2_ = np.asarray(dg2, float)
        bad_e = (np.abs(dg2_ - o["dg"]) > 1e-9 * (np.abs(dg2_) + np.abs(o["dg"]) + 1e-300)) & (o["r"] > 0) & np.isfinite(dg2_)
    if bad_e.any():
        j_ = int(np.flatnonzero(bad_e)[0])
        return "returned real-space uncertainty %r at r=%r is not that of the transform of the returned corrected function (%r)" % (
            float(o["dg"][j_]), float(o["r"][j_]), float(dg2_[j_]))
    if case["lorch"] or case["omitted"]:
        return None
    # ... and of an independent trapezoid sine quadrature of it (pure Python), for r > 0
    for ri, gi in zip(o["r"], o["g"]):
        if ri <= 0:
            continue
        val, mg = F.trapz_sine(list(xq), list(Fc), float(ri))
        Gi = 2 / math.pi * val
        want_g = L.from_base(1, R, ri, Gi / (4 * math.pi * m["rho"] * ri) + 1, m)
        sc_ = L.deriv(1, 1, R, ri, m) * (2 / math.pi * mg) + 1 + abs(want_g)
        if abs(gi - want_g) > 1e-9 * sc_:
            return "returned real-space function at r=%r is %r, the sine transform of the returned corrected function is %r" % (float(ri), float(gi), float(want_g))
    return None
