"""C01 -- reciprocal- and real-space functions are exact sine-Fourier partners."""
import math

import numpy as np

from . import convlib as L
from . import ftlib as F

ID = "C01"
CHECKER = "chk_named"
THEOREMS = ['C01_dst_orthogonality', 'C01_G_to_F_is_bare_sum', 'C01_F_to_G_is_two_over_pi_sum', 'C01_roundtrip_rQr', 'C01_roundtrip_QrQ', 'C01_roundtrip_g_S_g', 'C01_roundtrip_S_g_S', 'C01_anchor_r_to_Q', 'C01_anchor_Q_to_r', 'C01_trapz_panel_error', 'C01_trapz_uniform_error', 'C01_G_to_F_converges', 'C01_F_to_G_converges', 'C01_member_hypotheses', 'C01_member_discretisation_error', 'C01_closed_form_member_converges']
RULE = ("F_to_G / G_to_F / S_to_g / g_to_S on sine-transform-matched grids r_j = j dr, Q_k = k pi/(N dr), N = 1..200 (quick: ..60), data zero "
        "at both end points, plus unmatched grids for the correspondence; closed-form family A r exp(-a r^2) <-> A sqrt(pi) Q/(4 a^1.5) exp(-Q^2/4a) "
        "(single terms and sums) on three refinement levels; non-trivial = data not identically zero; distinct by input hash")
PAIRS = [(0, 1, 1), (1, 1, 1), (0, 0, 0), (1, 0, 0)]  # (dir, X, Y): F_to_G, G_to_F, S_to_g, g_to_S


def matched(rng, N):
    dr = rng.logu(0.005, 0.5)
    r = [j * dr for j in range(N + 1)]
    q = [k * math.pi / (N * dr) for k in range(N + 1)]
    return dr, r, q


def generate(rng, tier):
    reps = 12 if tier == "quick" else 60
    nmax = 60 if tier == "quick" else 200
    cases = []
    for i in range(reps):
        N = rng.choice([1, 2, 3, 5, 7, rng.randint(1, 30), rng.randint(1, nmax)])
        dr, r, q = matched(rng, N)
        for (d, X, Y) in PAIRS:
            xin, xout = (q, r) if d == 0 else (r, q)
            kind = rng.choice(["random", "ints", "smooth", "wide", "tiny"])
            if kind == "tiny" and X == 0:
                kind = "smooth"     # 1 + 1e-10 cannot carry the signal through S = F/Q + 1 in binary64: rounding, not the property
            _, y = F.data(rng, xin, kind)
            y[0] = 0.0
            y[-1] = 0.0
            if (d, X) in ((0, 0), (1, 0)):  # S or g: data = 1 + small so that the partner vanishes at the ends
                y = [1.0 + 0.2 * v for v in y]
                y[0] = 1.0
                y[-1] = 1.0
            mat = L.material(rng)
            names_in, names_out = (L.RN, L.GN) if d == 0 else (L.GN, L.RN)
            cases.append({"dir": d, "X": X, "Y": Y, "xin": xin, "yin": y, "xout": xout, "dy": None, "mat": mat,
                          "lorch": False, "omitted": False, "channel": 0, "matched": True, "N": N, "dr": dr,
                          "desc": {"method": "%s_to_%s" % (names_in[X], names_out[Y]), "N": N, "matched": True, "data": kind}})
    # one long matched pair (N = 4500, data that have not decayed anywhere): whatever path a size-dependent implementation takes
    Nbig = 4500
    drb = 0.01
    rb = [j * drb for j in range(Nbig + 1)]
    qb = [k * math.pi / (Nbig * drb) for k in range(Nbig + 1)]
    for (d, X, Y) in ((0, 1, 1), (1, 1, 1)):
        xin, xout = (qb, rb) if d == 0 else (rb, qb)
        yb = [rng.uniform(-1, 1) for _ in xin]
        yb[0] = yb[-1] = 0.0
        names_in, names_out = (L.RN, L.GN) if d == 0 else (L.GN, L.RN)
        cases.append({"dir": d, "X": X, "Y": Y, "xin": xin, "yin": yb, "xout": xout, "dy": None, "mat": L.material(rng),
                      "lorch": False, "omitted": False, "channel": 0, "matched": True, "N": Nbig, "dr": drb, "big": True,
                      "desc": {"method": "%s_to_%s" % (names_in[X], names_out[Y]), "N": Nbig, "matched": True, "data": "random", "size": "4501 x 4501"}})
    # closed-form family on three refinement levels (both directions), uniform and smoothly graded grids
    for i in range(4 if tier == "quick" else 12):
        terms = [(rng.uniform(0.5, 3.0) * rng.sgn(), rng.uniform(0.3, 2.0)) for _ in range(rng.choice([1, 2, 3]))]
        scale = rng.choice([1.0, 1.0, 4e-9])          # the same functions in other units
        terms = [(A * scale, a) for A, a in terms]
        graded = i % 2 == 1
        for d in (0, 1):
            L_ = 24.0 if d == 0 else 12.0
            levels = []
            for n in (100, 200, 400):
                u = [j / n for j in range(n + 1)]
                xin = [L_ * (v ** 1.6 if graded else v) for v in u]
                if d == 1:   # r -> Q : G(r) = sum A r exp(-a r^2)
                    y = [sum(A * v * math.exp(-a * v * v) for A, a in terms) for v in xin]
                else:        # Q -> r : F(Q) = sum A sqrt(pi) Q/(4 a^1.5) exp(-Q^2/4a)
                    y = [sum(A * math.sqrt(math.pi) * v / (4 * a ** 1.5) * math.exp(-v * v / (4 * a)) for A, a in terms) for v in xin]
                levels.append({"xin": xin, "yin": y})
            xout = [0.0, 0.3, 0.9, 1.7, 2.6]
            cases.append({"dir": d, "X": 1, "Y": 1, "xin": levels[0]["xin"], "yin": levels[0]["yin"], "xout": xout, "dy": None,
                          "mat": {"rho": 0.05, "bcoh": 1.0, "btot": 1.0}, "lorch": False, "omitted": False, "channel": 0,
                          "closed": {"terms": terms, "levels": levels, "L": L_, "graded": graded},
                          "desc": {"method": "F_to_G" if d == 0 else "G_to_F", "closed_form": True, "graded_grid": graded,
                                   "terms": len(terms), "tiny_amplitude": scale != 1.0}})
    # a long input grid (blocked / chunked implementations): closed form on 4500 points, five output points
    terms = [(1.5, 0.02), (-0.7, 0.05)]
    for d in (0, 1):
        L_ = 60.0 if d == 0 else 40.0
        levels = []
        for n in (1125, 2250, 4500):
            xin = [L_ * j / n for j in range(n + 1)]
            if d == 1:
                y = [sum(A * v * math.exp(-a * v * v) for A, a in terms) for v in xin]
            else:
                y = [sum(A * math.sqrt(math.pi) * v / (4 * a ** 1.5) * math.exp(-v * v / (4 * a)) for A, a in terms) for v in xin]
            levels.append({"xin": xin, "yin": y})
        cases.append({"dir": d, "X": 1, "Y": 1, "xin": levels[0]["xin"], "yin": levels[0]["yin"], "xout": [0.0, 0.05, 0.15, 0.3, 0.6], "dy": None,
                      "mat": {"rho": 0.05, "bcoh": 1.0, "btot": 1.0}, "lorch": False, "omitted": False, "channel": 0,
                      "closed": {"terms": terms, "levels": levels, "L": L_, "graded": False}, "long_roundtrip": 2600 if d == 0 else None,
                      "desc": {"method": "F_to_G" if d == 0 else "G_to_F", "closed_form": True, "graded_grid": False, "terms": 2,
                               "tiny_amplitude": False, "long_grid": True}})
    # unmatched grids (correspondence only)
    for i in range(10 if tier == "quick" else 60):
        d, X, Y = PAIRS[i % 4]
        c = F.gen_named_case(rng, tier, d, X, Y, channel=0)
        c["desc"]["matched"] = False
        cases.append(c)
    return cases


def run_impl(pystog, case):
    res = F.run_named(pystog, case)
    if "closed" in case:
        res["levels"] = []
        for lv in case["closed"]["levels"]:
            c2 = dict(case, xin=lv["xin"], yin=lv["yin"])
            res["levels"].append(F.run_named(pystog, c2))
    return res


def to_coq(case, res):
    if case.get("big"):      # too long for a Coq literal: decided by the oracle alone
        return None
    if "closed" in case and "levels" in res:
        return [("chk_named", F.named_to_coq(dict(case, xin=lv["xin"], yin=lv["yin"]), r)) for lv, r in zip(case["closed"]["levels"], res["levels"])]
    return F.named_to_coq(case, res)


def nontrivial(case, res):
    return "exception" not in res and any(v not in (0.0, 1.0) for v in case["yin"])


def oracle(pystog, case, res):
    """matched grids: transforming there and back (public methods) returns the original data to 1e-9 x N x max|data| (interior points;
    r=0 / Q=0 return the conventional value); closed-form family: each direction returns the analytic partner within the O(h^2)
    trapezoid envelope (error <= C h^2 and decreasing by ~4x per refinement)"""
    if "exception" in res:
        return "raised %s: %s" % (res["exception"], res["message"])
    tr = pystog.Transformer()
    kw = L.kwargs_of(case["mat"])
    if case.get("matched"):
        d, X, Y = case["dir"], case["X"], case["Y"]
        names_in, names_out = (L.RN, L.GN) if d == 0 else (L.GN, L.RN)
        back = getattr(tr, "%s_to_%s" % (names_out[Y], names_in[X]))
        fwd = getattr(tr, "%s_to_%s" % (names_in[X], names_out[Y]))
        # the same array objects first go through a Lorch-damped transform: the plain round trip afterwards must be unaffected
        xin_a, yin_a, xout_a = np.array(case["xin"], float), np.array(case["yin"], float), np.array(case["xout"], float)
        if len(xin_a) > 1 and xin_a.max() > 0:
            fwd(xin_a, yin_a, xout_a, **dict(kw, lorch=True))
        _, yfw, _ = fwd(xin_a, yin_a, xout_a, **kw)
        if not np.array_equal(np.asarray(yfw, float), np.array(res["yout"], float), equal_nan=True):
            return "%s gives a different result after a Lorch-damped call on the same arrays" % case["desc"]["method"]
        _, y2, _ = back(np.array(case["xout"], float), np.array(res["yout"], float), np.array(case["xin"], float), **kw)
        y = np.array(case["yin"], float)
        N = case["N"]
        if np.isfinite(y).all():
            for nm_, arr_, grid_ in (("", yfw, case["xout"]), (" then back", y2, case["xin"])):
                arr_ = np.asarray(arr_, float)
                if not np.isfinite(arr_).all():
                    j_ = int(np.flatnonzero(~np.isfinite(arr_))[0])
                    return "%s%s: non-finite value %r at abscissa %r for finite data on matched grids (N=%d)" % (case["desc"]["method"], nm_, float(arr_[j_]), float(grid_[j_]), N)
        base = 1.0 if (d, X) in ((0, 0), (1, 0)) else 0.0
        amp = np.abs(y - base).max() + 1e-6 * np.abs(y).max() + 1e-300   # 1e-9 * 1e-6 = a few ulp of the data themselves
        x = np.array(case["xin"], float)
        with np.errstate(all="ignore"):
            # S/g forms divide by x: error amplification 1/x (x) and the forward multiplication by x
            w = np.where(x > 0, 1.0, 0.0)
            scale = amp * (N + 1) * (x.max() / np.where(x > 0, x, 1.0) if base == 1.0 else 1.0)
        err = np.abs(np.asarray(y2, float) - y) * w
        floor = 0.0
        if base == 1.0:
            # the intermediate function is stored as 1 + (small): its own rounding (one ulp of ~1) propagated through the way back
            xo_ = np.array(case["xout"], float)
            wts = np.abs(np.gradient(xo_)) if len(xo_) > 1 else np.array([0.0])
            rho_ = case["mat"]["rho"]
            xs_ = np.where(x > 0, x, 1.0)
            with np.errstate(all="ignore"):
                if d == 1:   # g -> S -> g : dS = eps, back through (2/pi) sum w Q dS / (4 pi rho r)
                    floor = 2 / math.pi * float((wts * np.abs(xo_)).sum()) * 2.3e-16 / (4 * math.pi * rho_ * xs_)
                else:        # S -> g -> S : dg = eps, back through 4 pi rho sum w r dg / Q
                    floor = 4 * math.pi * rho_ * float((wts * np.abs(xo_)).sum()) * 2.3e-16 / xs_
        scale = scale + 1e9 * 16 * floor
        # (a long pair: "inverse to within rounding error" taken more literally -- 1e-12 N max|data| is still 10^4 rounding units)
        if (err > (1e-12 if case.get("big") else 1e-9) * scale).any():
            i = int(np.argmax(err / scale))
            return "%s then back: %r != original %r at index %d (N=%d)" % (case["desc"]["method"], float(y2[i]), float(y[i]), i, N)
        if base == 1.0 and y2[0] != 1.0:
            return "conventional value 1 not returned at x = 0"
        return None
    if case.get("long_roundtrip"):
        N = case["long_roundtrip"]
        dr_ = 0.01
        rr = np.arange(N + 1) * dr_
        qq = np.arange(N + 1) * math.pi / (N * dr_)
        G = np.sin(rr * 1.3) * np.exp(-rr / 7.0)
        G[0] = G[-1] = 0.0
        _, Fq, _ = tr.G_to_F(rr, G, qq)
        _, G2, _ = tr.F_to_G(qq, Fq, rr)
        if np.abs(G2 - G).max() > 1e-9 * (N + 1) * np.abs(G).max():
            return "matched grids with N=%d: G_to_F then F_to_G returns the data with error %.3g" % (N, float(np.abs(G2 - G).max()))
    if "closed" in case:
        terms = case["closed"]["terms"]
        xo = np.array(case["xout"], float)
        if case["dir"] == 1:
            want = sum(A * math.sqrt(math.pi) * xo / (4 * a ** 1.5) * np.exp(-xo * xo / (4 * a)) for A, a in terms)
        else:
            want = sum(A * xo * np.exp(-a * xo * xo) for A, a in terms)
        amp = sum(abs(A) for A, _ in terms)
        errs = []
        for lv, r in zip(case["closed"]["levels"], res["levels"]):
            x = np.array(lv["xin"])
            hmax = float(np.diff(x).max())
            err = float(np.abs(np.array(r["yout"]) - want).max())
            errs.append(err)
            # trapezoid error for these smooth, end-decaying integrands is far below 10 amp hmax^2
            if err > 10 * amp * hmax * hmax + 1e-9 * amp:
                return "%s differs from the closed-form partner by %.3g at max step %.3g (allowed %.3g)" % (case["desc"]["method"], err, hmax, 10 * amp * hmax * hmax)
        # discretisation accuracy: second order -- two halvings of the step must reduce the error ~16x (at least 6x), unless already at rounding level
        if errs[0] > 1e-7 * amp and errs[2] > errs[0] / 6 + 1e-10 * amp:
            return "%s: error against the closed-form partner does not decrease at second order under refinement (%.3g, %.3g, %.3g on %s grids)" % (
                case["desc"]["method"], errs[0], errs[1], errs[2], "graded" if case["closed"]["graded"] else "uniform")
    return None
