"""C05 -- every named transform is conversion, core transform, conversion -- nothing else."""
import math

import numpy as np

from . import convlib as L
from . import ftlib as F

ID = "C05"
CHECKER = "chk_named"
THEOREMS = ['C05_q2r_decomposition', 'C05_r2q_decomposition', 'C05_transforms_agree_q2r', 'C05_transforms_agree_q2r_unc', 'C05_transforms_agree_r2q', 'C05_transforms_agree_r2q_unc', 'C05_transforms_agree_q2r_full', 'C05_transforms_agree_r2q_full', 'C05g_q2r_decomposition', 'C05g_r2q_decomposition', 'C05g_q2r_decomposition_binary64', 'C05g_two_over_pi_binary64', 'C05w_q2r_no_window', 'C05w_r2q_no_window', 'C05w_q2r_window_defaults', 'C05w_r2q_window_defaults', 'C05w_q2r_decomposition', 'C05w_r2q_decomposition', 'C05w_rconv_commutes_with_crop', 'C05w_gconv_commutes_with_crop', 'C05w_q2r_window_is_precrop', 'C05w_r2q_window_is_precrop', 'C05w_q2r_outside_irrelevant', 'C05w_r2q_outside_irrelevant', 'C05w_q2r_outside_irrelevant_idx', 'C05w_r2q_outside_irrelevant_idx', 'C05w_q2r_outside_irrelevant_R', 'C05w_r2q_outside_irrelevant_R', 'C05w_transforms_agree_q2r', 'C05w_transforms_agree_q2r_unc', 'C05w_transforms_agree_r2q', 'C05w_transforms_agree_r2q_unc', 'C05w_transforms_agree_q2r_full', 'C05w_transforms_agree_r2q_full']
RULE = ("all 24 named transforms x {Lorch, omitted-range} on/off x with/without uncertainties (exhaustive over methods and options), with and without the window keywords xmin/xmax, flags as bool / numpy bool / 1, uncertainty positional or by its keyword, "
        "sampled grids/data/material constants; all three returned arrays compared; non-trivial = some output differs from the all-zero "
        "input's output; distinct by input hash")


def generate(rng, tier):
    reps = 1 if tier == "quick" else 6
    cases = []
    for _ in range(reps):
        for direction in (0, 1):
            nin, nout = (4, 3) if direction == 0 else (3, 4)
            for X in range(nin):
                for Y in range(nout):
                    for lorch in (False, True):
                        for omitted in (False, True):
                            uns = (not lorch and not omitted and (X + Y) % 2 == 0)
                            # the window keywords of the core transform given to the named transform (sorted grids; at least two points kept)
                            win = "none" if uns else rng.choice(["none", "grid", "between", "lo_only", "hi_only", "near", "hi_grid"])
                            c = F.gen_named_case(rng, "quick", direction, X, Y, lorch=lorch, omitted=omitted, channel=2, unsorted=uns, win=win)
                            c["foreign_kw"] = bool(omitted and not lorch)
                            # every method sees uncertainties given (non-zero) and absent
                            if lorch == omitted:
                                c["dy"] = [rng.logu(1e-4, 0.5) for _ in c["xin"]]
                                c["desc"]["dy"] = "pos"
                            elif lorch:
                                c["dy"] = None
                                c["desc"]["dy"] = "none"
                            if lorch or omitted:
                                # keep the low-x term away from its removable singularities (r = +-pi/Qmax) and Qmin > 0
                                if c["xin"][0] == 0.0 and omitted:
                                    c["xin"] = [v + 0.37 for v in c["xin"]]
                            if not omitted and not uns and len(c["xin"]) >= 3 and rng.random() < 0.35:
                                # abscissae on both sides of zero (e.g. after a Q offset): conversions are pointwise there too
                                sh = c["xin"][len(c["xin"]) // 2] + 0.0137
                                c["xin"] = [v - sh for v in c["xin"]]
                                c["xmin"] = None if c["xmin"] is None else c["xmin"] - sh
                                c["xmax"] = None if c["xmax"] is None else c["xmax"] - sh
                                if c["xmax"] is not None and c["xmax"] <= 0:
                                    c["xmax"] = None
                                c["int_dtype"] = [False, c["int_dtype"][1], c["int_dtype"][2]]
                                c["desc"]["grid"] = c["desc"]["grid"] + "+negative"
                            lo = c["xmin"] if c["xmin"] is not None else min(c["xin"])
                            hi = c["xmax"] if c["xmax"] is not None else max(c["xin"])
                            if sum(1 for v in c["xin"] if lo <= v <= hi) < 2:
                                c["xmin"], c["xmax"] = None, None
                                c["desc"]["window"] = "none"
                            if direction == 0 and X == 0 and Y == 1 and not lorch and not omitted and sorted(c["xin"]) == c["xin"]:
                                c["xin"] = [v - c["xin"][0] for v in c["xin"]]      # this one always on a grid that starts at Q = 0, no window
                                c["xmin"] = c["xmax"] = None
                                c["int_dtype"] = [False, c["int_dtype"][1], c["int_dtype"][2]]
                            if direction == 0 and X == 0 and not lorch and not omitted and c["xin"] and c["xin"][0] == 0.0 and c["xmin"] is None:
                                c["yin"] = [float("inf")] + list(c["yin"][1:])      # a diverging S(0): 0 * inf is NaN, and stays NaN through the transform
                                c["int_dtype"] = [c["int_dtype"][0], False, c["int_dtype"][2]]
                                c["desc"]["data"] = str(c["desc"]["data"]) + "+inf at Q=0"
                            c["pass_flags"] = True
                            cases.append(c)
    return cases


run_impl = F.run_named
to_coq = F.named_to_coq


def nontrivial(case, res):
    return "exception" not in res and (any(v != 0 for v in case["yin"]))


def compose(cv, tr, case, kw, x, y, xo, d):
    if case["dir"] == 0:
        X, Y = L.RN[case["X"]], L.GN[case["Y"]]
        f, df = (y, d) if X == "F" else getattr(cv, X + "_to_F")(x, y, d, **kw)
        r, T, E = tr.fourier_transform(x, f, xo, dy_in=df, **kw)
        T = T * (2.0 / math.pi)
        E = E * (2.0 / math.pi)
        return (T, E) if Y == "G" else getattr(cv, "G_to_" + Y)(r, T, E, **kw)
    X, Y = L.GN[case["X"]], L.RN[case["Y"]]
    g, dg = (y, d) if X == "G" else getattr(cv, X + "_to_G")(x, y, d, **kw)
    q, T, E = tr.fourier_transform(x, g, xo, dy_in=dg, **kw)
    return (T, E) if Y == "F" else getattr(cv, "F_to_" + Y)(q, T, E, **kw)


def oracle(pystog, case, res):
    """the named method's three return values equal: Converter.<X>_to_F (resp. _to_G) on the input, Transformer.fourier_transform
    with the caller's options (x 2/pi for Q->r), Converter.F_to_<Y> (resp. G_to_<Y>) on the result -- composed from the public
    pieces of the implementation itself, 1e-12 relative"""
    if "exception" in res:
        return "raised %s: %s" % (res["exception"], res["message"])
    cv, tr = pystog.Converter(), pystog.Transformer()
    kw = F.named_kwargs(case)
    if case.get("foreign_kw"):      # (the composition is made with the documented keys only)
        kw = F.named_kwargs(dict(case, foreign_kw=False))
    x = np.array(case["xin"], float)
    y = np.array(case["yin"], float)
    xo = np.array(case["xout"], float)
    d = None if case["dy"] is None else np.array(case["dy"], float)
    v, e = compose(cv, tr, case, kw, x, y, xo, d)
    yo, eo = np.array(res["yout"]), np.array(res["eout"])
    with np.errstate(all="ignore"):
        ok_v = np.isclose(yo, np.asarray(v, float), rtol=1e-12, atol=1e-300, equal_nan=True)
        ok_e = np.isclose(eo, np.asarray(e, float), rtol=1e-12, atol=1e-300, equal_nan=True)
    name = case["desc"]["method"]
    if not ok_v.all():
        i = int(np.flatnonzero(~ok_v)[0])
        return "%s: value %r differs from conversion-core-conversion %r (lorch=%s omitted=%s)" % (name, float(yo[i]), float(np.asarray(v)[i]), case["lorch"], case["omitted"])
    if not ok_e.all():
        i = int(np.flatnonzero(~ok_e)[0])
        return "%s: uncertainty %r differs from conversion-core-conversion %r (dy %s)" % (name, float(eo[i]), float(np.asarray(e)[i]), "given" if d is not None else "absent")
    # the same with one sample flagged bad (numpy.ma.MaskedArray): whatever the pieces do with the flag, the named method does the same
    if len(x) >= 4 and not case.get("int_dtype", [False] * 3)[1] and not case.get("big"):
        import warnings
        mask = np.zeros(len(x), bool)
        mask[len(x) // 2] = True
        ym = np.ma.MaskedArray(y.copy(), mask=mask)
        outs = []
        with warnings.catch_warnings():
            warnings.simplefilter("ignore")
            for route in (lambda: getattr(tr, name)(x, ym, xo, d, **kw)[1:], lambda: compose(cv, tr, case, kw, x, ym, xo, d)):
                try:
                    outs.append([np.asarray(np.ma.filled(np.ma.asarray(t), np.nan), float) for t in route()])
                except Exception as ex:
                    outs.append(type(ex).__name__)
        if isinstance(outs[0], str) != isinstance(outs[1], str):
            return "%s with a masked sample: %s, conversion-core-conversion: %s" % (name, *("raises " + o if isinstance(o, str) else "returns" for o in outs))
        if not isinstance(outs[0], str):
            for a_, b_, what in zip(outs[0], outs[1], ("value", "uncertainty")):
                if a_.shape != b_.shape or not np.isclose(a_, b_, rtol=1e-12, atol=1e-300, equal_nan=True).all():
                    return "%s with one sample masked (numpy.ma): %s differs from conversion-core-conversion on the same masked data (the flag is lost on one route)" % (name, what)
    return None
