"""Generators / runners for the 12 Fourier-filter variants (C08, C09)."""
import math

import numpy as np

from . import convlib as L
from . import ftlib as F

OUT = ["q_ft", "y_ft", "q", "y", "r", "g", "dy_ft", "dy", "dg"]


def physical(rng, n_r, n_q):
    """a common physical pair (g(r), Q[S(Q)-1]) on r >= 0, q > 0"""
    dr = rng.logu(0.02, 0.2)
    r0 = rng.choice([0.0, 0.0, dr])
    r = [r0 + i * dr for i in range(n_r)]
    if rng.random() < 0.3:
        r = [v + (rng.uniform(-0.2, 0.2) * dr if i else 0.0) for i, v in enumerate(r)]
    dq = rng.logu(0.05, 0.4)
    q0 = rng.logu(0.1, 1.0)
    q = [q0 + i * dq for i in range(n_q)]
    if rng.random() < 0.3:
        q = [v + rng.uniform(-0.2, 0.2) * dq for v in q]
    a, b = rng.uniform(1.5, 4.0), rng.uniform(0.5, 3.0)
    g = [max(0.0, 1 + math.cos(a * v) * math.exp(-v / b)) * (0.0 if v < 0.3 * b else 1.0) + rng.uniform(-0.1, 0.1) for v in r]
    f = [math.sin(a * v) * math.exp(-v * v / 60.0) + rng.uniform(-0.05, 0.05) for v in q]
    return r, g, q, f


def gen_filter_case(rng, tier, R, Q, channel=2, lorch=False, omitted=False, sizes=None):
    n_r = rng.choice([3, 5, 8, rng.randint(3, 25 if tier == "quick" else 60)])
    n_q = rng.choice([2, 3, 7, rng.randint(2, 25 if tier == "quick" else 60)])
    if sizes is not None:
        n_r, n_q = sizes
    r, g, q, f = physical(rng, n_r, n_q)
    mat = L.material(rng)
    mode = rng.choice(["grid", "between", "between", "all", "tiny"])
    if mode == "grid":
        cutoff = r[rng.randrange(1, len(r))]
    elif mode == "between":
        cutoff = rng.uniform(r[0], r[-1])
    elif mode == "all":
        cutoff = r[-1] + 1.0
    else:
        cutoff = r[1] * 0.5 + r[0] * 0.5
    uk1, dg = L.uncert(rng, n_r)
    uk2, df = L.uncert(rng, n_q)
    # convert the common pair to the variant's input functions (exact formulas, x > 0 or guarded)
    x_r = np.array(r)
    x_q = np.array(q)
    with np.errstate(all="ignore"):
        gin = L.from_base(1, R, x_r, np.array(g), mat)
        yin = L.from_base(0, Q, x_q, np.array(f) / x_q + 1.0, mat)
        dgin = None if dg is None else (np.array(dg) * L.deriv(1, 0, R, np.where(x_r > 0, x_r, 1.0), mat) * (x_r > 0 if R == 1 else 1.0))
        dyin = None if df is None else (np.array(df) * L.deriv(0, 1, Q, x_q, mat))
    return {"R": R, "Q": Q, "r": r, "gr": gin.tolist(), "q": q, "y": yin.tolist(),
            "dgr": None if dgin is None else dgin.tolist(), "dy": None if dyin is None else dyin.tolist(),
            "cutoff": cutoff, "mat": mat, "lorch": lorch, "omitted": omitted, "channel": channel,
            "unc_form": rng.choice(["array", "array", "list"]), "unc_kw": (n_r + n_q) % 2 == 1,
            "common": {"g": g, "f": f, "dg": dg, "df": df},
            "desc": {"variant": "%s_using_%s" % (L.GN[R], L.RN[Q]), "n_r": n_r, "n_q": n_q, "cutoff": mode,
                     "dgr": uk1, "dy": uk2, "r0_is_0": r[0] == 0.0, "lorch": lorch, "omitted": omitted}}


def option_kwargs(case):
    kw = L.kwargs_of(case["mat"])
    form = case.get("flagform", "bool")
    if case["lorch"]:
        kw["lorch"] = F.flag_value(True, form)
    if case["omitted"]:
        kw["OmittedXrangeCorrection"] = F.flag_value(True, form)
    return kw


def call_filter(pystog, case, R=None, Q=None, gr=None, y=None, dgr="same", dy="same", ff=None):
    ff = ff or pystog.FourierFilter()
    R = case["R"] if R is None else R
    Q = case["Q"] if Q is None else Q
    f = getattr(ff, "%s_using_%s" % (L.GN[R], L.RN[Q]))
    kw = option_kwargs(case)
    a = case["dgr"] if isinstance(dgr, str) else dgr
    b = case["dy"] if isinstance(dy, str) else dy
    ua = None if a is None else np.array(a, float)
    ub = None if b is None else np.array(b, float)
    if case.get("unc_form") == "list":      # "numpy.array or list"
        ua, ub = (None if ua is None else ua.tolist()), (None if ub is None else ub.tolist())
    rr_ = np.array(case["r"], np.float32 if case.get("r_f32") else float)
    if case.get("unc_kw"):      # the uncertainties (and the cutoff) by their documented keywords
        names = {"F": "dfq", "S": "dsq", "FK": "dfq", "DCS": "ddcs"}
        kw2 = dict(kw, cutoff=case["cutoff"])
        if ua is not None:
            kw2["dgr"] = ua
        if ub is not None:
            kw2[names[L.RN[Q]]] = ub
        out = f(rr_, np.array(case["gr"] if gr is None else gr, float), np.array(case["q"], float), np.array(case["y"] if y is None else y, float), **kw2)
    else:
        out = f(rr_, np.array(case["gr"] if gr is None else gr, float), np.array(case["q"], float),
                np.array(case["y"] if y is None else y, float), case["cutoff"], ua, ub, **kw)
    return [None if o is None else np.asarray(o, float) for o in out]


def run_filter(pystog, case):
    """on a FourierFilter object that has been used before and is used again afterwards (props/reuse.py)"""
    from . import reuse
    ff = pystog.FourierFilter()
    alt_g, alt_dg = reuse.alt_data(case["gr"])
    alt_y, alt_dy = reuse.alt_data(case["y"])

    def call(alt, with_dy):
        if alt:
            return [o for o in call_filter(pystog, case, gr=alt_g, y=alt_y, dgr=alt_dg if with_dy else None, dy=alt_dy if with_dy else None, ff=ff) if o is not None]
        return call_filter(pystog, case, ff=ff)
    reuse.prime(call)
    r_, q_ = np.linspace(0.0, 4.0, 9), np.linspace(0.5, 3.0, 6)
    reuse.provoke(ff, [(n_, a_, k_) for n_ in ("g_using_F", "G_using_S", "GK_using_DCS")
                       for a_, k_ in (((r_, np.ones(8), q_, np.ones(6), 1.5), L.kwargs_of(case["mat"])), ((r_, np.ones(9), q_, np.ones(5), 1.5), L.kwargs_of(case["mat"])),
                                      ((r_ + 1.0, np.ones(9), q_, np.ones(6), 0.5), L.kwargs_of(case["mat"])))])
    out = call(False, None)
    res = {n: (None if o is None else o.tolist()) for n, o in zip(OUT, out)}
    msg = reuse.hold(call, [o for o in out if o is not None], "%s_using_%s" % (L.GN[case["R"]], L.RN[case["Q"]]))
    if msg:
        res["reuse_error"] = msg
    return res


def filter_to_coq(case, res):
    if case.get("r_f32"):       # a single-precision r grid is decided by the oracle alone (the model computes in binary64 throughout)
        return None
    if "exception" in res:
        out = [[float("nan")]] * 9
    else:
        out = [res[n] if res[n] is not None else [float("nan")] for n in OUT]
    m = case["mat"]
    return ([case["r"], case["gr"], case["q"], case["y"], case["dgr"] or [], case["dy"] or []],
            [m["rho"], m["bcoh"], m["btot"], case["cutoff"]],
            [case["R"], case["Q"], 0 if case["dgr"] is None else 1, 0 if case["dy"] is None else 1,
             1 if case["lorch"] else 0, 1 if case["omitted"] else 0, case["channel"]],
            out)


def force_uncertainties(rng, case, dgr=True, dy=True):
    """make the two input uncertainties present (non-zero) or absent as requested"""
    m = case["mat"]
    x_r, x_q = np.array(case["r"]), np.array(case["q"])
    if dgr:
        dg = [rng.logu(1e-3, 0.3) for _ in case["r"]]
        with np.errstate(all="ignore"):
            v = np.array(dg) * L.deriv(1, 0, case["R"], np.where(x_r > 0, x_r, 1.0), m) * (x_r > 0 if case["R"] == 1 else 1.0)
        case["dgr"], case["common"]["dg"] = v.tolist(), dg
    else:
        case["dgr"], case["common"]["dg"] = None, None
    if dy:
        df = [rng.logu(1e-3, 0.3) for _ in case["q"]]
        case["dy"], case["common"]["df"] = (np.array(df) * L.deriv(0, 1, case["Q"], x_q, m)).tolist(), df
    else:
        case["dy"], case["common"]["df"] = None, None
    r_ = case["r"]
    if case["cutoff"] < r_[min(2, len(r_) - 1)]:      # keep a real low-r region in these coverage cases
        case["cutoff"] = 0.5 * (r_[len(r_) // 2] + r_[min(len(r_) - 1, len(r_) // 2 + 1)])
        case["desc"]["cutoff"] = "between"
    case["desc"]["dgr"] = "pos" if dgr else "none"
    case["desc"]["dy"] = "pos" if dy else "none"
    return case
