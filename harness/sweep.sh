#!/bin/bash
# robustness sweep on the unchanged tree: every claimed check under many seeds; prints only non-zero exits
cd "$(dirname "$0")/.."
( cd coq && coq_makefile -f _CoqProject -o Makefile >/dev/null && timeout 3000 make -j16 >/dev/null 2>&1 )
TIER=${1:-quick}; FROM=${2:-10}; TO=${3:-25}
for p in C01 C02 C03 C04 C05 C06 C07 C08 C09 C10 C11 C12 C13 C14 C15 C16 C17 C18 C19 C20; do
  for s in $(seq $FROM $TO); do
    out=$(VERIF_SEED=$s VERIF_OUT=$PWD/sweep_out VERIF_BUILD_TAG=sweep_$p /venv/bin/python harness/vcheck.py $p --tier $TIER 2>&1 | tail -1)
    case "$out" in *"exit=0") ;; *) echo "ALARM $p seed=$s: $out"; cp -r sweep_out/replays/$p sweep_out/keep_${p}_$s 2>/dev/null;; esac
  done
  echo "done $p"
done
