#!/usr/bin/env python3
"""Regenerate /verif/MANIFEST.json from the table below."""
import json
import os

VERIF = os.path.dirname(os.path.dirname(os.path.abspath(__file__)))
CLAIMED = json.load(open(os.path.join(VERIF, "harness", "claims.json")))
ALL = [json.loads(l)["id"] for l in open(os.path.join(VERIF, "properties.jsonl")) if l.strip()]

checks = []
for pid in ALL:
    if pid not in CLAIMED:
        continue
    c = CLAIMED[pid]
    checks.append({
        "property_id": pid,
        "quick_cmd": "/venv/bin/python harness/vcheck.py %s --tier quick" % pid,
        "thorough_cmd": "/venv/bin/python harness/vcheck.py %s --tier thorough" % pid,
        "evidence_file": "/verif/evidence/%s.json" % pid,
        "replay_cmd_template": "/venv/bin/python harness/vcheck.py %s --replay {path}" % pid,
        "engine": "coq-model+correspondence",
        "level_claimed": {"category": "proof", "text": c["text"], "design_ref": c.get("design_ref", "DESIGN.md section 6")},
        "level_note": c["note"],
        "technique": c["technique"],
    })
na = [{"property_id": p, "reason": "check not built yet in this session (planned, see DESIGN.md section 6); not claimed until its theorems and correspondence exist"}
      for p in ALL if p not in CLAIMED]
m = {
    "version": 1,
    "setup_cmd": "cd /verif/coq && coq_makefile -f _CoqProject -o Makefile && timeout 3000 make -j16",
    "hooks": {
        "guard": "PYSTOG_VERIF",
        "enable": "no hooks exist: every observation goes through the public API of the working tree (PYTHONPATH=/repo/src); the variable is reserved",
        "baseline_off_cmd": "cd /repo && /venv/bin/python -m pytest -ra -q -p no:cacheprovider --timeout=900 --continue-on-collection-errors",
        "source_commits": [],
        "add_only": True,
    },
    "engines": [{
        "name": "coq-model+correspondence", "path": "/verif/coq, /verif/harness",
        "serves_properties": [c["property_id"] for c in checks],
        "kind_free_text": "hand-written Gallina model polymorphic in the number carrier; theorems proved at Coq's reals; the binary64 instance is run by vm_compute on harness-generated cases and compared inside Coq with what /repo's working tree returns (correspondence check, every run)",
    }],
    "checks": checks,
    "not_applicable": na,
    "notes": "See DESIGN.md. Known findings / fixed defects: known_findings.json.",
}
json.dump(m, open(os.path.join(VERIF, "MANIFEST.json"), "w"), indent=1)
print("claimed:", [c["property_id"] for c in checks])
