#!/bin/bash
# matrix_partial.sh "C08,C09" : re-run only the named checks against every seeded change and merge into seeded/<id>/seedtest_result.json
cd "$(dirname "$0")/.."
PROPS=$1
( cd coq && coq_makefile -f _CoqProject -o Makefile >/dev/null && timeout 3000 make -j16 >/dev/null 2>&1 )
ls -d seeded/*/ | while read d; do [ -f $d/patch.diff ] && echo $d; done | \
  xargs -P 4 -I{} sh -c "/venv/bin/python harness/seedtest.py {} --props $PROPS --jobs 4 --skip-tests --merge > {}/matrix_partial.txt 2>&1; echo 'done {}'"
