#!/usr/bin/env python3
"""axioms_summary.py -- rewrite the generated axiom table in DESIGN.md (section 8) from evidence/*.json
(the axioms are the ones Print Assumptions reported on the last run of each check)."""
import glob
import json
import os
import re

VERIF = os.path.dirname(os.path.dirname(os.path.abspath(__file__)))
MARK_A, MARK_B = "<!-- axioms-table -->", "<!-- /axioms-table -->"
rows = []
total = 0
for f in sorted(glob.glob(os.path.join(VERIF, "evidence", "C*.json"))):
    d = json.load(open(f))
    cov = d["coverage"]
    tb = cov.get("trusted_base", [])
    ax = [t for t in tb if re.search(r"axiom|Axiom|sig_|functional_ext|classic|Uint63|PrimFloat|PrimInt63|FloatAxioms|closed", str(t), re.I)]
    total += cov.get("discharged", 0)
    rows.append("| %s | %d/%d | %s |" % (d["property_id"], cov.get("discharged", 0), cov.get("obligations", 0), "; ".join(str(a).replace("|", "/") for a in ax)[:600] or "(see evidence file)"))
text = "\n".join([MARK_A, "", "%d theorems re-checked on the last run of the 20 quick checks; axioms as reported by `Print Assumptions` (from `evidence/*.json`):" % total, "",
                  "| property | theorems | axioms reported |", "|---|---|---|"] + rows + ["", MARK_B])
p = os.path.join(VERIF, "DESIGN.md")
s = open(p).read()
if MARK_A in s and MARK_B in s:
    s = s[:s.index(MARK_A)] + text + s[s.index(MARK_B) + len(MARK_B):]
else:
    anchor = "* **IEEE rounding is modelled, not verified.**"
    s = s.replace(anchor, text + "\n\n" + anchor, 1)
open(p, "w").write(s)
print(total, "theorems")
