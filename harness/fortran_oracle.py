"""Compile `subroutine stog_bit` as it is now in /repo/fortran/stog_new3.f90 and run it on given cases."""
import hashlib
import os
import re
import subprocess

import common as C

DRIVER = """
program drv
  implicit none
  integer :: lptin, lptout, i, lm
  double precision, allocatable :: xin(:), y(:), xout(:), yout(:)
  double precision :: delr, rho
  logical :: lmod
  read(*,*) lptin, lptout, delr, rho, lm
  lmod = (lm .ne. 0)
  allocate(xin(lptin), y(lptin), xout(lptout), yout(lptout))
  do i = 1, lptin
    read(*,*) xin(i), y(i)
  end do
  call stog_bit(lptin, lptout, xin, y, delr, rho, lmod, xout, yout)
  write(*,'(A)') '@@RESULT'
  do i = 1, lptout
    write(*,'(ES25.17E3,1X,ES25.17E3)') xout(i), yout(i)
  end do
end program drv
"""


def build():
    src = open(os.path.join(C.REPO, "fortran", "stog_new3.f90")).read()
    m = re.search(r"^\s*subroutine stog_bit.*?^\s*end subroutine stog_bit\s*$", src, re.S | re.M | re.I)
    if not m:
        return None, "subroutine stog_bit not found"
    sub = m.group(0)
    h = hashlib.sha256(sub.encode()).hexdigest()[:12]
    d = os.path.join(C.BUILD, "fortran")
    os.makedirs(d, exist_ok=True)
    exe = os.path.join(d, "stog_bit_" + h)
    if not os.path.exists(exe):
        f = os.path.join(d, "drv_%s.f90" % h)
        open(f, "w").write(sub + "\n" + DRIVER)
        p = subprocess.run(["gfortran", "-O0", "-ffree-line-length-none", "-o", exe, f], capture_output=True, text=True)
        if p.returncode != 0:
            return None, p.stderr[-800:]
    return exe, h


def run(exe, xin, sq, delr, rho, lmod, lptout):
    inp = "%d %d %.17e %.17e %d\n" % (len(xin), lptout, delr, rho, 1 if lmod else 0)
    inp += "".join("%.17e %.17e\n" % (a, b) for a, b in zip(xin, sq))
    p = subprocess.run([exe], input=inp, capture_output=True, text=True, cwd=C.SCRATCH, timeout=60)
    if p.returncode != 0 or "@@RESULT" not in p.stdout:
        raise RuntimeError("stog_bit failed: " + (p.stderr or p.stdout)[-300:])
    rows = p.stdout.split("@@RESULT")[1].split()
    vals = [float(v) for v in rows]
    return vals[0::2], vals[1::2]
