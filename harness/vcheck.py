#!/venv/bin/python
"""vcheck.py <property id> [--tier quick|thorough] [--replay file]

One run = (1) build the Coq development and re-check the property's theorem
file (proof obligations, Print Assumptions), (2) correspondence: run the
implementation from /repo's working tree and the binary64 instance of the
model (inside Coq) on the same cases and compare, (3) the property's direct
oracle on the implementation (the search for a failing input), (4) verdict,
(5) evidence file.
"""
import argparse
import importlib
import json
import os
import sys
import time
import traceback

sys.path.insert(0, os.path.dirname(os.path.abspath(__file__)))
import common as C  # noqa: E402


def load_prop(pid):
    return importlib.import_module("props.%s" % pid.lower())


def call_oracle(mod, pystog, case, res):
    """the property's own oracle; a result that changed under reuse of the same object (props/reuse.py) fails every property
    about returned values"""
    if isinstance(res, dict) and res.get("reuse_error"):
        return res["reuse_error"]
    try:
        return mod.oracle(pystog, case, res)
    except Exception as e:       # the oracle calls the implementation again (other data, other options): an exception there is a finding
        tb = traceback.format_exc().strip().splitlines()
        where = next((ln.strip() for ln in reversed(tb) if "/pystog/" in ln), "")
        return "a further call made while checking the property raised %s: %s %s" % (type(e).__name__, str(e)[:200], where[:160])


def run_case(mod, pystog, case):
    try:
        return mod.run_impl(pystog, case)
    except Exception as e:  # the implementation raised: a discrete, comparable outcome
        return {"exception": type(e).__name__, "message": str(e)[:300], "trace": traceback.format_exc()[-1500:]}


def shrink(mod, pystog, case, fails):
    """Greedy shrink using the module's candidate generator, if any."""
    if not hasattr(mod, "shrinks"):
        return case
    cur = case
    for _ in range(200):
        for cand in mod.shrinks(cur):
            try:
                res = run_case(mod, pystog, cand)
                if fails(cand, res):
                    cur = cand
                    break
            except Exception:
                continue
        else:
            return cur
    return cur


def main():
    ap = argparse.ArgumentParser()
    ap.add_argument("prop")
    ap.add_argument("--tier", default=os.environ.get("VERIF_TIER", "quick"), choices=["quick", "thorough"])
    ap.add_argument("--replay", default=None)
    args = ap.parse_args()
    if args.replay and not os.path.isabs(args.replay):
        cand = [os.path.abspath(args.replay), os.path.join(C.VERIF, args.replay), os.path.join(C.OUT, args.replay)]
        args.replay = next((c for c in cand if os.path.exists(c)), cand[0])
    pid = args.prop.upper()
    tier = args.tier
    seed = C.get_seed()
    t0 = time.time()
    os.chdir(C.SCRATCH)
    mod = load_prop(pid)
    pystog = C.import_pystog()
    import numpy as np

    np.seterr(all="ignore")
    import warnings

    warnings.filterwarnings("ignore")

    broken = []  # names of proof obligations / correspondences that no longer check
    notes = []

    # ---- 1. proofs
    rc, blog = C.coq_build()
    build_ok = rc == 0
    if not build_ok:
        broken.append("coq build (make -C coq) failed: " + blog[-600:])
    forb = C.scan_forbidden()
    if forb:
        broken.append("forbidden construct in the development: " + "; ".join(forb[:5]))
    thm_ok, theorems, ax, plog = (False, [], {}, "")
    if build_ok:
        thm_ok, theorems, ax, plog = C.check_props_file(pid)
        if not thm_ok:
            broken.append("theorem file props/%s.v does not check: %s" % (pid, (json.dumps(ax.get("not_allowed")) if ax.get("not_allowed") else plog[-600:])))
    expected = getattr(mod, "THEOREMS", None)
    if expected is not None:
        missing = [t for t in expected if t not in theorems]
        if missing:
            broken.append("theorems missing from props/%s.v: %s" % (pid, missing))
    obligations = len(theorems) if theorems else len(expected or [])
    discharged = len(theorems) if (build_ok and thm_ok and not forb) else 0

    # ---- 2. cases
    rng = C.Rng(seed * 1000003 + sum(map(ord, pid)))
    cases = []
    corpus_dir = os.path.join(C.VERIF, "corpus", pid)
    if os.path.isdir(corpus_dir):
        for n in sorted(os.listdir(corpus_dir)):
            if n.endswith(".json"):
                c = json.load(open(os.path.join(corpus_dir, n)))
                c.setdefault("desc", {})["origin"] = "corpus/" + n
                cases.append(c)
    if args.replay:
        c = json.load(open(args.replay))
        cases = [c["case"] if "case" in c else c]
    else:
        cases.extend(mod.generate(rng, tier))

    # ---- 3. implementation + oracle
    known = [k for k in C.load_known_findings().get("known", []) if k.get("property") == pid]
    results, oracle_fail = [], []
    for i, case in enumerate(cases):
        res = run_case(mod, pystog, case)
        results.append(res)
        try:
            msg = call_oracle(mod, pystog, case, res)
        except Exception:
            msg = "oracle raised: " + traceback.format_exc()[-800:]
        if msg:
            oracle_fail.append((i, msg))

    # ---- 4. correspondence (inside Coq)
    bad, maxdev, errors = [], 0.0, []
    n_corr = 0
    bad_by = {}
    if build_ok:
        groups = {}
        for i, (case, res) in enumerate(zip(cases, results)):
            enc = mod.to_coq(case, res)
            if enc is None:
                continue
            for e in (enc if isinstance(enc, list) else [enc]):
                # an entry is either the 4-tuple for mod.CHECKER or (checker_name, 4-tuple)
                if len(e) == 2 and isinstance(e[0], str):
                    chk, e = e
                else:
                    chk = mod.CHECKER
                g = groups.setdefault(chk, ([], []))
                g[0].append(C.coq_case(*e))
                g[1].append(i)
        for chk, (texts, index) in sorted(groups.items()):
            n_corr += len(texts)
            b, md, errs = C.run_coq_cases(pid, chk, texts, shard=getattr(mod, "SHARD", 250), tag="corr_" + chk)
            bad_by.setdefault(chk, sorted(set(index[j] for j in b)))
            if not (md <= maxdev):
                maxdev = md
            errors.extend(errs)
        bad = sorted(set(i for v in bad_by.values() for i in v))
        if errors:
            broken.append("correspondence could not be evaluated: " + "; ".join(errors)[:800])
        if bad:
            for chk, v in sorted(bad_by.items()):
                if v:
                    broken.append("correspondence Exec.%s disagrees with the implementation on %d cases (first: case %d)" % (chk, len(v), v[0]))

    # ---- 5. verdict
    viol_lines, known_lines = [], []
    rdir = os.path.join(C.OUT, "replays", pid)
    unknown_fail = []
    for i, msg in oracle_fail:
        hit = None
        for k in known:
            try:
                if mod.known_match(cases[i], results[i], msg, k):
                    hit = k
                    break
            except Exception:
                pass
        if hit:
            known_lines.append((hit, i, msg))
        else:
            unknown_fail.append((i, msg))
    seen_known = set()
    for k, i, msg in known_lines:
        if k["id"] not in seen_known:
            seen_known.add(k["id"])
            print("KNOWN-FINDING: property=%s %s (%s)" % (pid, k["what"], k["id"]))
    exit_code = 0
    if unknown_fail:
        # prefer a failing case that also disagrees with the model
        unknown_fail.sort(key=lambda t: (t[0] not in bad, t[0]))
        i, msg = unknown_fail[0]

        def fails(c, r):
            m = call_oracle(mod, pystog, c, r)
            return bool(m)

        small = shrink(mod, pystog, cases[i], fails)
        sres = run_case(mod, pystog, small)
        path = os.path.join(rdir, "violation_%s.json" % C.case_hash(small))
        C.write_json(path, {
            "property": pid, "kind": "failing-input", "message": call_oracle(mod, pystog, small, sres) or msg,
            "case": small, "implementation_result": sres, "original_case_index": i,
            "broken": broken, "seed": seed, "tier": tier, "source": C.source_fingerprint(),
            "replay": "cd /verif && /venv/bin/python harness/vcheck.py %s --replay %s" % (pid, os.path.relpath(path, C.OUT)),
        })
        print("VIOLATION property=%s replay=%s" % (pid, os.path.relpath(path, C.OUT)))
        exit_code = 1
    elif broken:
        path = os.path.join(rdir, "broken_%s.json" % C.case_hash([broken, seed]))
        C.write_json(path, {
            "property": pid, "kind": "no-failing-input-found",
            "no_longer_checks": broken,
            "disagreeing_cases": [{"case": cases[i], "implementation_result": results[i]} for i in bad[:3]],
            "searched": {"cases": len(cases), "oracle": getattr(mod.oracle, "__doc__", "")},
            "seed": seed, "tier": tier, "source": C.source_fingerprint(),
        })
        print("VIOLATION property=%s replay=%s no-failing-input-found" % (pid, os.path.relpath(path, C.OUT)))
        exit_code = 1

    # ---- 6. evidence
    distinct = {}
    for case, res in zip(cases, results):
        try:
            if mod.nontrivial(case, res):
                distinct[C.case_hash({k: v for k, v in case.items() if k != "desc"})] = 1
        except Exception:
            pass
    dist = {}
    for case in cases:
        for k, v in (case.get("desc") or {}).items():
            if isinstance(v, (str, int, bool)) or v is None:
                dist.setdefault(k, {}).setdefault(str(v), 0)
                dist[k][str(v)] += 1
    samples = []
    for j in sorted(set([0, len(cases) // 2, len(cases) - 1])):
        if 0 <= j < len(cases):
            samples.append({"case": _abbrev(cases[j]), "implementation": _abbrev(results[j])})
    ev = {
        "property_id": pid, "tier": tier, "seed": seed, "level": "proof",
        "coverage": {
            "obligations": max(1, obligations), "discharged": discharged,
            "theorems": theorems,
            "checker_cmd": "make -C /verif/coq && coqc -R coq/theories PyStoG coq/theories/props/%s.v  (kernel re-check of every theorem + Print Assumptions); correspondence: coqc on build/cases/%s/*.v (vm_compute of Exec.%s)" % (pid, pid, "/".join(sorted(bad_by)) or getattr(mod, "CHECKER", "?")),
            "trusted_base": [
                "Coq 8.16.1 kernel incl. vm_compute and primitive floats (no native_compute, no extraction)",
                "axioms reported by Print Assumptions: " + ", ".join(ax.get("axioms", []) or ["(none)"]),
                "hand-written Gallina model tied to the source by the correspondence check (harness/, Exec.v); IEEE rounding measured not proved",
            ] + list(getattr(mod, "TRUSTED", [])),
            "evaluations": len(cases), "distinct_nontrivial": len(distinct),
            "rule": getattr(mod, "RULE", ""),
            "samples": samples,
            "correspondence": {"cases_compared_in_coq": n_corr, "disagreeing": len(bad), "max_scaled_deviation": maxdev, "tolerance": 1e-9, "errors": errors[:3]},
            "oracle": {"failures": len(oracle_fail), "known": len(known_lines), "doc": (mod.oracle.__doc__ or "").strip()},
            "input_distribution": dist,
            "source": C.source_fingerprint(),
            "broken": broken,
            "exhaustive": False,
        },
        "assumptions": list(getattr(mod, "ASSUMPTIONS", [])),
        "wall_s": round(time.time() - t0, 2),
        "violations": 1 if exit_code else 0,
    }
    if hasattr(mod, "extra_evidence"):
        try:
            ev["coverage"].update(mod.extra_evidence(tier))
        except Exception:
            pass
    # a replay of a single case is not a coverage run: its record goes next to the build output
    C.write_json(os.path.join(C.BUILD, "replay_evidence", pid + ".json") if args.replay else os.path.join(C.OUT, "evidence", pid + ".json"), ev)
    print("%s tier=%s seed=%d cases=%d corr_bad=%d maxdev=%.3g oracle_fail=%d theorems=%d/%d wall=%.1fs exit=%d" % (
        pid, tier, seed, len(cases), len(bad), maxdev, len(oracle_fail), discharged, obligations, time.time() - t0, exit_code))
    sys.exit(exit_code)


def _abbrev(o, n=6):
    if isinstance(o, dict):
        return {k: _abbrev(v, n) for k, v in o.items() if k != "trace"}
    if isinstance(o, (list, tuple)):
        if len(o) > n and all(isinstance(x, (int, float)) for x in o):
            return list(o[:n]) + ["... (%d values)" % len(o)]
        if len(o) > 12:
            return [_abbrev(x, n) for x in o[:12]] + ["... (%d items)" % len(o)]
        return [_abbrev(x, n) for x in o]
    return o


def guarded_main():
    """a check that cannot complete (import of the package fails, a harness step raises on this tree) has not shown the property:
    that is reported like any other broken obligation, naming what stopped it"""
    try:
        main()
    except SystemExit:
        raise
    except BaseException as e:
        pid = (sys.argv[1] if len(sys.argv) > 1 else "C00").upper()
        tb = traceback.format_exc()
        rdir = os.path.join(C.OUT, "replays", pid)
        os.makedirs(rdir, exist_ok=True)
        path = os.path.join(rdir, "broken_check_did_not_complete.json")
        C.write_json(path, {"property": pid, "kind": "broken", "no_longer_checks": ["the check itself did not complete: %s: %s" % (type(e).__name__, str(e)[:300])],
                            "traceback": tb[-3000:], "source": C.source_fingerprint() if hasattr(C, "source_fingerprint") else None})
        sys.stderr.write(tb)
        print("VIOLATION property=%s replay=%s no-failing-input-found" % (pid, os.path.relpath(path, C.OUT)))
        sys.exit(1)


if __name__ == "__main__":
    guarded_main()
