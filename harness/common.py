"""Shared machinery of the correspondence harness.

Everything that touches the implementation imports it from the *current
working tree* of the repository (VERIF_REPO, default /repo) -- never from an
installed copy -- and runs inside a scratch directory under /verif/build
(some StoG methods write files into the current directory).
"""
import hashlib
import json
import math
import os
import random
import re
import subprocess
import sys
import time
from concurrent.futures import ThreadPoolExecutor

VERIF = os.path.dirname(os.path.dirname(os.path.abspath(__file__)))
REPO = os.environ.get("VERIF_REPO", "/repo")
COQ = os.path.join(VERIF, "coq")
BUILD = os.path.join(VERIF, "build") if not os.environ.get("VERIF_BUILD_TAG") else os.path.join(VERIF, "build", "tag_" + os.environ["VERIF_BUILD_TAG"])
# evidence / replays of evaluation runs against scratch copies go elsewhere (never into /verif/evidence)
OUT = os.environ.get("VERIF_OUT", VERIF)
SCRATCH = os.path.join(BUILD, "scratch")

os.environ.setdefault("PYTHONHASHSEED", "0")
os.environ["PYSTOG_VERIF"] = "1"  # reserved hook guard (no hooks exist)
for p in [p for p in sys.path if "pystog" in p.lower()]:
    pass
sys.path.insert(0, os.path.join(REPO, "src"))
os.makedirs(SCRATCH, exist_ok=True)


def import_pystog():
    """Import pystog from REPO/src and make sure that is where it came from."""
    import importlib

    for m in [m for m in sys.modules if m == "pystog" or m.startswith("pystog.")]:
        del sys.modules[m]
    pystog = importlib.import_module("pystog")
    src = os.path.realpath(os.path.dirname(pystog.__file__))
    want = os.path.realpath(os.path.join(REPO, "src", "pystog"))
    if src != want:
        raise RuntimeError("pystog imported from %s, wanted %s" % (src, want))
    return pystog


def source_fingerprint():
    h = hashlib.sha256()
    files = []
    for root, _, names in os.walk(os.path.join(REPO, "src", "pystog")):
        for n in sorted(names):
            if n.endswith(".py"):
                files.append(os.path.join(root, n))
    files.append(os.path.join(REPO, "fortran", "stog_new3.f90"))
    for f in sorted(files):
        if os.path.exists(f):
            h.update(f.encode())
            h.update(open(f, "rb").read())
    try:
        head = subprocess.run(["git", "-C", REPO, "rev-parse", "HEAD"], capture_output=True, text=True).stdout.strip()
    except Exception:
        head = "?"
    return {"repo": REPO, "head": head, "sources_sha256": h.hexdigest()}


# ---------------------------------------------------------------- Coq text
def hexf(x):
    x = float(x)
    if math.isnan(x):
        return "nan"
    if math.isinf(x):
        return "infinity" if x > 0 else "neg_infinity"
    s = x.hex()
    if s.startswith("-"):
        return "(" + s + ")"
    return s


def flist(v):
    return "[" + "; ".join(hexf(x) for x in v) + "]"


def coq_case(fl, sc, zs, out):
    return "mk [%s] %s [%s]%%Z [%s]" % (
        "; ".join(flist(v) for v in fl),
        flist(sc),
        "; ".join("(%d)" % int(z) for z in zs),
        "; ".join(flist(v) for v in out),
    )


HEADER = """From Coq Require Import List ZArith PrimFloat.
From PyStoG Require Import Num NumF Exec.
Import ListNotations.
Open Scope float_scope.
"""


def _run_shard(args):
    path, timeout = args
    t0 = time.time()
    try:
        p = subprocess.run(
            ["coqc", "-R", os.path.join(COQ, "theories"), "PyStoG", "-w", "-all", path],
            capture_output=True,
            text=True,
            timeout=timeout,
            cwd=os.path.dirname(path),
        )
        return path, p.returncode, p.stdout, p.stderr, time.time() - t0
    except subprocess.TimeoutExpired:
        return path, 124, "", "timeout", time.time() - t0


def run_coq_cases(prop_id, checker, coq_cases, shard=250, timeout=600, tag="corr", extra_header=""):
    """coq_cases: list of strings 'mk ...'.  Returns (bad_indices, max_dev, errors)."""
    d = os.path.join(BUILD, "cases", prop_id)
    os.makedirs(d, exist_ok=True)
    for f in os.listdir(d):
        if f.startswith(tag + "_"):
            os.remove(os.path.join(d, f))
    jobs = []
    for k in range(0, len(coq_cases), shard):
        path = os.path.join(d, "%s_%04d.v" % (tag, k // shard))
        with open(path, "w") as f:
            f.write(HEADER + extra_header)
            f.write("Definition cases : list rawcase := [\n")
            f.write(";\n".join(coq_cases[k : k + shard]))
            f.write("\n].\nEval vm_compute in run %s cases.\n" % checker)
        jobs.append((path, k))
    bad, mx, errors = [], 0.0, []
    with ThreadPoolExecutor(max_workers=min(16, max(1, len(jobs)))) as ex:
        results = list(ex.map(_run_shard, [(p, timeout) for p, _ in jobs]))
    for (path, k), (_, rc, out, err, _) in zip(jobs, results):
        if rc != 0:
            errors.append("%s: rc=%s %s" % (os.path.basename(path), rc, (err or out)[-500:]))
            continue
        flat = " ".join(out.split())
        m = re.search(r"= \(\[(.*?)\], (.*?)\) : list nat \* float", flat)
        if not m:
            errors.append("%s: unparsable output %r" % (os.path.basename(path), flat[:300]))
            continue
        idx = [int(x) for x in re.findall(r"(\d+)%nat", m.group(1))]
        if m.group(1).strip() and not idx:
            idx = [int(x) for x in re.findall(r"\d+", m.group(1))]
        bad.extend(k + i for i in idx)
        try:
            v = float(m.group(2).replace("infinity", "inf"))
        except ValueError:
            v = float("nan")
        if not (v <= mx):
            mx = v
    return sorted(bad), mx, errors


# ---------------------------------------------------------------- build / proofs
FORBIDDEN = re.compile(
    r"\bAdmitted\b|\badmit\b|\bAxiom\b|\bAxioms\b|\bParameter\b|\bParameters\b|\bConjecture\b|"
    r"Unset\s+Guard|bypass_check|type-in-type|impredicative-set|Admit\s+Obligations|"
    r"Unset\s+Positivity|Unset\s+Universe\s+Checking"
)
ALLOWED_AXIOMS = {
    "ClassicalDedekindReals.sig_forall_dec",
    "ClassicalDedekindReals.sig_not_dec",
    "FunctionalExtensionality.functional_extensionality_dep",
    "Classical_Prop.classic",
    "ClassicalEpsilon.constructive_indefinite_description",
    "PropExtensionality.propositional_extensionality",
    "Eqdep.Eq_rect_eq.eq_rect_eq",
    "JMeq.JMeq_eq",
    "ProofIrrelevance.proof_irrelevance",
}
# primitives of the kernel (not axioms of mine): native floats / ints
PRIMITIVE_RE = re.compile(r"^((PrimFloat|Uint63|PrimInt63|FloatAxioms|FloatOps|Sint63|PrimString)\.|float$|of_uint63$|normfr_mantissa$|frshiftexp$)")


def strip_comments(text):
    out, depth, i = [], 0, 0
    while i < len(text):
        if text.startswith("(*", i):
            depth += 1
            i += 2
        elif text.startswith("*)", i) and depth:
            depth -= 1
            i += 2
        else:
            if not depth:
                out.append(text[i])
            i += 1
    return "".join(out)


def scan_forbidden():
    hits = []
    for root, _, names in os.walk(os.path.join(COQ, "theories")):
        for n in names:
            if n.endswith(".v"):
                p = os.path.join(root, n)
                body = strip_comments(open(p).read())
                for m in FORBIDDEN.finditer(body):
                    hits.append("%s: %s" % (os.path.relpath(p, VERIF), m.group(0)))
    for n in ("_CoqProject",):
        body = open(os.path.join(COQ, n)).read()
        for m in FORBIDDEN.finditer(body):
            hits.append("%s: %s" % (n, m.group(0)))
    return hits


def coq_build(timeout=3000):
    """make the Coq development (no-op when up to date)."""
    if not os.path.exists(os.path.join(COQ, "Makefile")):
        subprocess.run(["coq_makefile", "-f", "_CoqProject", "-o", "Makefile"], cwd=COQ, check=True, capture_output=True)
    p = subprocess.run(["timeout", str(timeout), "make", "-j16"], cwd=COQ, capture_output=True, text=True)
    return p.returncode, (p.stdout + p.stderr)[-3000:]


def check_props_file(prop_id, timeout=600):
    """Re-compile props/<id>.v and props/<id>_*.v, return (ok, theorems, assumptions, log).

    These files contain only `Theorem ... Proof. exact lemma. Qed.` and
    `Print Assumptions`; their compile output lists the axioms per theorem."""
    pdir = os.path.join(COQ, "theories", "props")
    paths = [os.path.join(pdir, prop_id + ".v")] + sorted(
        os.path.join(pdir, n) for n in os.listdir(pdir) if n.startswith(prop_id + "_") and n.endswith(".v"))
    os.makedirs(os.path.join(BUILD, "props"), exist_ok=True)
    if not os.path.exists(paths[0]):
        return False, [], {}, "missing " + paths[0]
    theorems, axioms, logs, ok = [], set(), [], True

    def one(path):
        return subprocess.run(
            ["timeout", str(timeout), "coqc", "-R", os.path.join(COQ, "theories"), "PyStoG", "-w", "-all",
             "-o", os.path.join(BUILD, "props", os.path.basename(path) + "o"), path],
            capture_output=True, text=True, cwd=COQ)

    with ThreadPoolExecutor(max_workers=len(paths)) as ex:
        results = list(ex.map(one, paths))
    for path, p in zip(paths, results):
        text = strip_comments(open(path).read())
        # nothing but statements closed by `exact`
        if re.search(r"\bProof\.(?!\s*exact\b)", text):
            ok = False
            logs.append("%s: a proof other than `exact` in a statement-only file" % os.path.basename(path))
        theorems += re.findall(r"\bTheorem\s+([A-Za-z0-9_']+)", text)
        log = p.stdout + p.stderr
        if p.returncode != 0:
            return False, theorems, {}, log[-3000:]
        logs.append(log[-600:])
        lines_ = p.stdout.splitlines()
        for li, line in enumerate(lines_):
            m = re.match(r"^([A-Za-z_][A-Za-z0-9_.']*)\s*:", line)
            if not m:   # a long name: the type starts on the next line ("Name\n  : type")
                m2 = re.match(r"^([A-Za-z_][A-Za-z0-9_.']*)\s*$", line)
                if m2 and li + 1 < len(lines_) and re.match(r"^\s+:", lines_[li + 1]):
                    m = m2
            if m and ("." in m.group(1) or m.group(1) in ("float", "of_uint63", "normfr_mantissa", "frshiftexp")):
                axioms.add(m.group(1))
    bad = sorted(a for a in axioms if a not in ALLOWED_AXIOMS and not PRIMITIVE_RE.match(a))
    return (ok and not bad), theorems, {"axioms": sorted(axioms), "not_allowed": bad}, "\n".join(logs)[-2000:]


# ---------------------------------------------------------------- evidence / verdict
def write_json(path, obj):
    os.makedirs(os.path.dirname(path), exist_ok=True)
    tmp = path + ".tmp"
    with open(tmp, "w") as f:
        json.dump(obj, f, indent=1, default=_jsonable)
    os.replace(tmp, path)


def _jsonable(o):
    try:
        import numpy as np

        if isinstance(o, np.ndarray):
            return o.tolist()
        if isinstance(o, (np.floating,)):
            return float(o)
        if isinstance(o, (np.integer,)):
            return int(o)
        if isinstance(o, (np.bool_,)):
            return bool(o)
    except Exception:
        pass
    return repr(o)


def load_known_findings():
    p = os.path.join(VERIF, "known_findings.json")
    if not os.path.exists(p):
        return {"known": [], "fixed": []}
    return json.load(open(p))


def case_hash(obj):
    return hashlib.sha256(json.dumps(obj, sort_keys=True, default=_jsonable).encode()).hexdigest()[:16]


class Rng(random.Random):
    """One PRNG state per run; every random choice derives from it."""

    def fl(self, lo, hi):
        return self.uniform(lo, hi)

    def logu(self, lo, hi):
        return math.exp(self.uniform(math.log(lo), math.log(hi)))

    def sgn(self):
        return self.choice([-1.0, 1.0])


def get_seed():
    try:
        return int(os.environ.get("VERIF_SEED", "0"))
    except ValueError:
        return 0
