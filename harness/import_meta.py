#!/usr/bin/env python3
"""import_meta.py <seeded dir>: complete a sub-agent's meta.json with origin and what seedtest confirmed (seedtest_result.json)."""
import json, os, sys
d = sys.argv[1]
m = json.load(open(os.path.join(d, "meta.json")))
r = json.load(open(os.path.join(d, "seedtest_result.json")))
m.setdefault("origin", "written by a fresh sub-agent that saw only the property text and a scratch worktree")
m["confirmed_by_me"] = {"how": "harness/seedtest.py in a scratch git worktree of /repo HEAD (git apply; full pytest suite; demo.py before/after; registered checks with VERIF_REPO)",
                        "demo_unpatched": r.get("demo_unpatched"), "demo_patched": r.get("demo_patched"), "tests": r.get("tests")}
json.dump(m, open(os.path.join(d, "meta.json"), "w"), indent=1)
print(d, m["confirmed_by_me"])
