#!/venv/bin/python
"""seedtest.py <dir with patch.diff [demo.py]> [--props C07,C05 | --all] [--seeds 0,1] [--tier quick] [--in-repo]

Confirm a seeded change and run the registered checks against it.

Default: the patch is applied to a scratch git worktree of /repo's HEAD under
/tmp (removed afterwards) and the checks run with VERIF_REPO pointing at it
and with evidence / replays / build output redirected (VERIF_OUT,
VERIF_BUILD_TAG), so /repo, /verif/evidence and concurrent work are not
disturbed.  --in-repo applies it to /repo's working tree instead
(git -C /repo apply ... ; git -C /repo checkout -- .).  Never commits.
"""
import argparse
import json
import os
import re
import shutil
import subprocess
import sys
import time
from concurrent.futures import ThreadPoolExecutor

VERIF = os.path.dirname(os.path.dirname(os.path.abspath(__file__)))


def sh(cmd, **kw):
    return subprocess.run(cmd, shell=True, capture_output=True, text=True, **kw)


def pytest_counts(repo):
    p = sh("cd %s && PYTHONPATH=%s/src timeout 1500 /venv/bin/python -m pytest -q -p no:cacheprovider --timeout=900 2>&1 | tail -1" % (repo, repo))
    m = re.search(r"(\d+) failed, (\d+) passed", p.stdout)
    if m:
        return int(m.group(2)), int(m.group(1))
    m = re.search(r"(\d+) passed", p.stdout)
    return (int(m.group(1)), 0) if m else (None, p.stdout[-200:])


def main():
    ap = argparse.ArgumentParser()
    ap.add_argument("dir")
    ap.add_argument("--props", default="")
    ap.add_argument("--all", action="store_true")
    ap.add_argument("--seeds", default="0")
    ap.add_argument("--tier", default="quick")
    ap.add_argument("--skip-tests", action="store_true")
    ap.add_argument("--in-repo", action="store_true")
    ap.add_argument("--jobs", type=int, default=5)
    ap.add_argument("--merge", action="store_true", help="keep the results of checks not run this time")
    a = ap.parse_args()
    a.dir = os.path.abspath(a.dir)
    patch = os.path.join(a.dir, "patch.diff")
    demo = os.path.join(a.dir, "demo.py")
    manifest = json.load(open(os.path.join(VERIF, "MANIFEST.json")))
    claimed = [c["property_id"] for c in manifest["checks"]]
    props = claimed if a.all else [p for p in a.props.split(",") if p]
    tag = "seed_%d" % os.getpid()
    if a.in_repo:
        repo = "/repo"
        if sh("git -C /repo status --porcelain --untracked-files=no").stdout.strip():
            print("refusing: /repo has uncommitted changes")
            sys.exit(2)
    else:
        repo = "/tmp/seedtest_%d" % os.getpid()
        r = sh("git -C /repo worktree add -q --detach %s HEAD" % repo)
        if r.returncode != 0:
            print("cannot create worktree:", r.stderr[-300:])
            sys.exit(2)
        if os.path.exists("/repo/src/pystog/_version.py"):
            shutil.copy("/repo/src/pystog/_version.py", repo + "/src/pystog/_version.py")
    outdir = os.path.join("/tmp", "seedout_%d" % os.getpid())
    out = {"patch": patch, "results": {}}
    env = dict(os.environ, PYTHONPATH=repo + "/src")
    try:
        if os.path.exists(demo):
            out["demo_unpatched"] = sh("cd %s && timeout 600 /venv/bin/python demo.py" % a.dir, env=env).returncode
        ap_ = sh("git -C %s apply %s" % (repo, patch))
        if ap_.returncode != 0:
            print("patch does not apply:", ap_.stderr[-300:])
            sys.exit(2)
        if os.path.exists(demo):
            out["demo_patched"] = sh("cd %s && timeout 600 /venv/bin/python demo.py" % a.dir, env=env).returncode
        if not a.skip_tests:
            out["tests"] = pytest_counts(repo)

        def one(job):
            p, seed = job
            t0 = time.time()
            e = dict(os.environ, VERIF_REPO=repo, VERIF_SEED=str(seed), VERIF_OUT=outdir, VERIF_BUILD_TAG="%s_%s_%s" % (tag, p, seed))
            r = sh("cd %s && /venv/bin/python harness/vcheck.py %s --tier %s" % (VERIF, p, a.tier), env=e)
            lines = [l for l in r.stdout.splitlines() if l.startswith("VIOLATION")]
            msg = ""
            m = re.search(r"replay=(\S+)", " ".join(lines))
            if m and os.path.exists(os.path.join(outdir, m.group(1))):
                try:
                    d = json.load(open(os.path.join(outdir, m.group(1))))
                    msg = (d.get("message") or "; ".join(d.get("no_longer_checks", [])))[:230]
                except Exception:
                    pass
            if r.returncode not in (0, 1):
                msg = "CHECK CRASHED: " + (r.stderr or r.stdout)[-300:]
            shutil.rmtree(os.path.join(VERIF, "build", "tag_%s_%s_%s" % (tag, p, seed)), ignore_errors=True)
            return p, seed, r.returncode, lines, msg, round(time.time() - t0, 1)

        jobs = [(p, s) for p in props for s in a.seeds.split(",")]
        with ThreadPoolExecutor(max_workers=a.jobs) as ex:
            for p, seed, rc, lines, msg, wall in ex.map(one, jobs):
                nf = any("no-failing-input-found" in l for l in lines)
                out["results"]["%s/seed%s" % (p, seed)] = {"exit": rc, "no_failing_input_found": nf, "message": msg, "wall_s": wall}
                print("%s seed=%s exit=%d %s %s" % (p, seed, rc, "no-failing-input-found" if nf else "", msg), flush=True)
    finally:
        if a.in_repo:
            sh("git -C /repo checkout -- .")
        else:
            sh("git -C /repo worktree remove --force %s" % repo)
        shutil.rmtree(outdir, ignore_errors=True)
    print(json.dumps({k: v for k, v in out.items() if k != "results"}))
    rp = os.path.join(a.dir, "seedtest_result.json")
    if a.merge and os.path.exists(rp):
        try:
            old = json.load(open(rp))
            merged = dict(old.get("results", {}))
            merged.update(out["results"])
            out = dict(old, **{k: v for k, v in out.items() if k != "results"})
            out["results"] = merged
        except Exception:
            pass
    json.dump(out, open(rp, "w"), indent=1)


if __name__ == "__main__":
    main()
