#!/venv/bin/python
"""seedtest.py <dir with patch.diff [demo.py]> [--props C07,C05 | --all] [--seeds 0,1] [--tier quick]

Apply a seeded change to /repo's working tree, confirm it keeps the existing
suite at baseline and that its demonstration fails, run the registered checks
against it, and restore /repo.  Prints one line per check.  Never commits.
"""
import argparse
import json
import os
import re
import subprocess
import sys
import time

VERIF = os.path.dirname(os.path.dirname(os.path.abspath(__file__)))
REPO = "/repo"


def sh(cmd, **kw):
    return subprocess.run(cmd, shell=True, capture_output=True, text=True, **kw)


def pytest_counts():
    p = sh("cd /repo && timeout 1500 /venv/bin/python -m pytest -q -p no:cacheprovider --timeout=900 2>&1 | tail -1")
    m = re.search(r"(\d+) failed, (\d+) passed", p.stdout)
    if m:
        return int(m.group(2)), int(m.group(1))
    m = re.search(r"(\d+) passed", p.stdout)
    return (int(m.group(1)), 0) if m else (None, p.stdout[-200:])


def main():
    ap = argparse.ArgumentParser()
    ap.add_argument("dir")
    ap.add_argument("--props", default="")
    ap.add_argument("--all", action="store_true")
    ap.add_argument("--seeds", default="0")
    ap.add_argument("--tier", default="quick")
    ap.add_argument("--skip-tests", action="store_true")
    a = ap.parse_args()
    a.dir = os.path.abspath(a.dir)
    patch = os.path.join(a.dir, "patch.diff")
    demo = os.path.join(a.dir, "demo.py")
    if sh("git -C /repo status --porcelain --untracked-files=no").stdout.strip():
        print("refusing: /repo has uncommitted changes")
        sys.exit(2)
    manifest = json.load(open(os.path.join(VERIF, "MANIFEST.json")))
    claimed = [c["property_id"] for c in manifest["checks"]]
    props = claimed if a.all else [p for p in a.props.split(",") if p]
    out = {"patch": patch, "results": {}}
    env = dict(os.environ, PYTHONPATH="/repo/src")
    if os.path.exists(demo):
        out["demo_unpatched"] = sh("cd %s && timeout 600 /venv/bin/python demo.py" % a.dir, env=env).returncode
    ap_ = sh("git -C /repo apply %s" % patch)
    if ap_.returncode != 0:
        print("patch does not apply:", ap_.stderr[-300:])
        sys.exit(2)
    try:
        if os.path.exists(demo):
            out["demo_patched"] = sh("cd %s && timeout 600 /venv/bin/python demo.py" % a.dir, env=env).returncode
        if not a.skip_tests:
            out["tests"] = pytest_counts()
        for p in props:
            for seed in a.seeds.split(","):
                t0 = time.time()
                r = sh("cd %s && VERIF_SEED=%s /venv/bin/python harness/vcheck.py %s --tier %s" % (VERIF, seed, p, a.tier))
                lines = [l for l in r.stdout.splitlines() if l.startswith("VIOLATION") or l.startswith("KNOWN-FINDING")]
                msg = ""
                m = re.search(r"replay=(\S+)", " ".join(lines))
                if m and os.path.exists(os.path.join(VERIF, m.group(1))):
                    try:
                        d = json.load(open(os.path.join(VERIF, m.group(1))))
                        msg = (d.get("message") or "; ".join(d.get("no_longer_checks", [])))[:230]
                    except Exception:
                        pass
                out["results"]["%s/seed%s" % (p, seed)] = {"exit": r.returncode, "lines": [l[:160] for l in lines if l.startswith("VIOLATION")], "message": msg,
                                                          "wall_s": round(time.time() - t0, 1)}
                print("%s seed=%s exit=%d %s %s" % (p, seed, r.returncode, "no-failing-input-found" if any("no-failing-input-found" in l for l in lines) else "", msg), flush=True)
    finally:
        sh("git -C /repo checkout -- .")
    print(json.dumps({k: v for k, v in out.items() if k != "results"}))
    json.dump(out, open(os.path.join(a.dir, "seedtest_result.json"), "w"), indent=1)


if __name__ == "__main__":
    main()
