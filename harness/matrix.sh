#!/bin/bash
# every kept seeded change against every registered check (seed 0, quick); results in seeded/<id>/seedtest_result.json
cd "$(dirname "$0")/.."
( cd coq && coq_makefile -f _CoqProject -o Makefile >/dev/null && timeout 3000 make -j16 >/dev/null 2>&1 )
ls -d seeded/*/ | while read d; do [ -f $d/patch.diff ] && echo $d; done | \
  xargs -P 2 -I{} sh -c '/venv/bin/python harness/seedtest.py {} --all --jobs 8 --skip-tests > {}/matrix.txt 2>&1; echo "done {}"'
