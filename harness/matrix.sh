#!/bin/bash
# every kept seeded change against every registered check (seed 0, quick); results in seeded/<id>/seedtest_result.json
cd "$(dirname "$0")/.."
( cd coq && coq_makefile -f _CoqProject -o Makefile >/dev/null && timeout 3000 make -j16 >/dev/null 2>&1 )
for d in seeded/*/; do
  [ -f $d/patch.diff ] || continue
  /venv/bin/python harness/seedtest.py $d --all --jobs 8 --skip-tests > $d/matrix.txt 2>&1
  echo "done $d"
done
