(* Design-phase feasibility spike for C01 (not part of the framework):
   discrete sine orthogonality and the r -> Q -> r round trip on matched grids,
   over a list model of the trapezoid sine transform. *)
From Coq Require Import List Reals Lra Lia.
Import ListNotations.
Open Scope R_scope.

(* ---------- finite sums ---------- *)
Fixpoint sumf (f:nat->R) (n:nat) : R := match n with O => 0 | S k => sumf f k + f k end.
Lemma sumf_ext f g n : (forall k, (k<n)%nat -> f k = g k) -> sumf f n = sumf g n.
Proof. induction n as [|n IH]; intros E; cbn; [reflexivity|]. rewrite IH, E by (intros; try apply E; lia). reflexivity. Qed.
Lemma sumf_scal c f n : sumf (fun k => c * f k) n = c * sumf f n.
Proof. induction n as [|n IH]; cbn; [lra|rewrite IH; lra]. Qed.
Lemma sumf_plus f g n : sumf (fun k => f k + g k) n = sumf f n + sumf g n.
Proof. induction n as [|n IH]; cbn; [lra|rewrite IH; lra]. Qed.
Lemma sumf_minus f g n : sumf (fun k => f k - g k) n = sumf f n - sumf g n.
Proof. induction n as [|n IH]; cbn; [lra|rewrite IH; lra]. Qed.
Lemma sumf_swap (f:nat->nat->R) n m : sumf (fun i => sumf (fun j => f i j) m) n = sumf (fun j => sumf (fun i => f i j) n) m.
Proof. induction n as [|n IH]; cbn.
 - induction m as [|m IHm]; cbn; [reflexivity|rewrite <- IHm; lra].
 - rewrite IH, <- sumf_plus. reflexivity. Qed.
Lemma sumf_delta (g:nat->R) m n : (m<n)%nat -> sumf (fun j => if Nat.eqb j m then g j else 0) n = g m.
Proof. induction n as [|n IH]; intros Hm; [lia|]. cbn. destruct (Nat.eqb_spec n m) as [->|Hne].
 - rewrite (sumf_ext _ (fun _ => 0)). 2:{ intros k Hk. destruct (Nat.eqb_spec k m); [lia|reflexivity]. }
   assert (Z: forall q, sumf (fun _ => 0) q = 0) by (induction q; cbn; lra). rewrite Z. lra.
 - rewrite IH by lia. lra. Qed.
Lemma sumf_shift1 (f:nat->R) s q : sumf (fun k => f (s+k)%nat) (S q) = f s + sumf (fun k => f (S s + k)%nat) q.
Proof. induction q as [|q IHq].
 - cbn. rewrite Nat.add_0_r. lra.
 - cbn [sumf] in *. rewrite IHq. replace (S s + q)%nat with (s + S q)%nat by lia. lra. Qed.
Lemma sumf_zero n : sumf (fun _ => 0) n = 0. Proof. induction n; cbn; lra. Qed.

(* ---------- trigonometry ---------- *)
Lemma lagrange p n : 2 * sin (p/2) * sumf (fun k => cos (INR k * p)) n = sin ((INR n - 1/2) * p) + sin (p/2).
Proof.
 induction n as [|n IH].
 - simpl. replace ((0 - 1/2)*p) with (-(p/2)) by lra. rewrite sin_neg. lra.
 - cbn [sumf]. rewrite Rmult_plus_distr_l, IH. rewrite S_INR.
   replace ((INR n + 1 - 1/2)*p) with (INR n * p + p/2) by lra.
   replace ((INR n - 1/2)*p) with (INR n * p - p/2) by lra.
   rewrite sin_plus, sin_minus. lra.
Qed.
Lemma cos_nPI (n:nat) : cos (INR n * PI) = (-1)^n.
Proof. induction n as [|n IH]. simpl. rewrite Rmult_0_l. apply cos_0.
 rewrite S_INR. replace ((INR n+1)*PI) with (INR n*PI + PI) by lra. rewrite neg_cos, IH. simpl. lra. Qed.
Lemma sin_nPI (n:nat) : sin (INR n * PI) = 0.
Proof. induction n as [|n IH]. simpl. rewrite Rmult_0_l. apply sin_0.
 rewrite S_INR. replace ((INR n+1)*PI) with (INR n*PI + PI) by lra. rewrite neg_sin, IH. lra. Qed.
Lemma cos_sum (N p:nat) : (0<p<2*N)%nat -> sumf (fun k => cos (INR k * (INR p * PI / INR N))) N = (1 - (-1)^p)/2.
Proof.
 intros Hp. set (phi := INR p * PI / INR N).
 assert (HN: 0 < INR N) by (apply lt_0_INR; lia).
 assert (Hs: 0 < sin (phi/2)).
 { apply sin_gt_0; unfold phi.
   - assert (0 < INR p) by (apply lt_0_INR; lia). assert (0<PI) by apply PI_RGT_0.
     apply Rdiv_lt_0_compat; [|lra]. apply Rdiv_lt_0_compat; [|lra]. nra.
   - assert (INR p < 2 * INR N). { replace 2 with (INR 2) by reflexivity. rewrite <- mult_INR. apply lt_INR. lia. }
     assert (0<PI) by apply PI_RGT_0.
     apply Rmult_lt_reg_r with (INR N); [lra|]. field_simplify; [|lra]. nra. }
 pose proof (lagrange phi N) as L.
 replace ((INR N - 1/2)*phi) with (INR p * PI - phi/2) in L by (unfold phi; field; lra).
 rewrite sin_minus, sin_nPI, cos_nPI in L. nra.
Qed.
Lemma pow_m1_parity a b : (-1)^(a+b+ (a-b)) = 1 -> True. Proof. trivial. Qed.
Lemma pow_m1_add2 n : (-1)^(n+2) = (-1)^n. Proof. rewrite pow_add. simpl. lra. Qed.
Lemma pow_m1_even_shift a b : (b <= a)%nat -> (-1)^(a+b) = (-1)^(a-b).
Proof. intros H. replace (a+b)%nat with ((a-b) + 2*b)%nat by lia. rewrite pow_add, pow_mult. simpl. replace (-1 * (-1 * 1)) with 1 by lra. rewrite pow1. lra. Qed.

(* sum_{k<N} sin(j k pi/N) sin(m k pi/N) = N/2 [j=m], 0<j,m<N *)
Lemma dst_orthogonality (N j m:nat) : (0<j<N)%nat -> (0<m<N)%nat ->
  sumf (fun k => sin (INR j * (INR k * PI / INR N)) * sin (INR m * (INR k * PI / INR N))) N
  = if Nat.eqb j m then INR N / 2 else 0.
Proof.
 intros Hj Hm.
 assert (HN: 0 < INR N) by (apply lt_0_INR; lia).
 (* product to sum *)
 assert (P: forall a b, sin a * sin b = (cos (a-b) - cos (a+b))/2).
 { intros a b. rewrite cos_minus, cos_plus. lra. }
 rewrite (sumf_ext _ (fun k => (cos (INR k * (INR (if Nat.leb m j then j-m else m-j) * PI / INR N))
                               - cos (INR k * (INR (j+m) * PI / INR N)))/2)).
 2:{ intros k _. rewrite P. f_equal. f_equal.
     - destruct (Nat.leb_spec m j).
       + rewrite minus_INR by lia. f_equal. field. lra.
       + rewrite minus_INR by lia. rewrite <- (cos_neg (INR j * _ - _)). f_equal. field. lra.
     - rewrite plus_INR. f_equal. field. lra. }
 rewrite (sumf_ext _ (fun k => /2 * (cos (INR k * (INR (if Nat.leb m j then j-m else m-j) * PI / INR N))
                               - cos (INR k * (INR (j+m) * PI / INR N))))) by (intros; lra).
 rewrite sumf_scal, sumf_minus.
 rewrite (cos_sum N (j+m)) by lia.
 destruct (Nat.eqb_spec j m) as [->|Hne].
 - rewrite Nat.leb_refl, Nat.sub_diag. cbn [INR].
   rewrite (sumf_ext _ (fun _ => 1)). 2:{ intros. replace (INR k * (0 * PI / INR N)) with 0 by (field; lra). apply cos_0. }
   assert (S1: forall q, sumf (fun _ => 1) q = INR q). { induction q as [|q IHq]; [reflexivity|]. cbn [sumf]. rewrite IHq, S_INR. lra. }
   rewrite S1. replace (m+m)%nat with (2*m)%nat by lia. rewrite pow_mult. simpl. replace (-1 * (-1*1)) with 1 by lra. rewrite pow1. lra.
 - destruct (Nat.leb_spec m j).
   + rewrite (cos_sum N (j-m)) by lia. rewrite (pow_m1_even_shift j m) by lia. lra.
   + rewrite (cos_sum N (m-j)) by lia. replace (j+m)%nat with (m+j)%nat by lia. rewrite (pow_m1_even_shift m j) by lia. lra.
Qed.

(* ---------- list model of the transform ---------- *)
Fixpoint trapz (xs ys:list R) : R := match xs, ys with
  | x0 :: ((x1 :: _) as xs'), y0 :: ((y1 :: _) as ys') => (x1 - x0) * (y1 + y0) / 2 + trapz xs' ys'
  | _, _ => 0 end.
Lemma trapz_cons2 x0 x1 xs y0 y1 ys :
  trapz (x0::x1::xs) (y0::y1::ys) = (x1 - x0) * (y1 + y0) / 2 + trapz (x1::xs) (y1::ys).
Proof. reflexivity. Qed.
Fixpoint map2 {X Y Z} (f:X->Y->Z) (l:list X) (m:list Y) := match l,m with x::l,y::m => f x y :: map2 f l m | _,_ => [] end.
Definition kernel (xs ys:list R) (x':R) := map2 (fun x y => y * sin (x * x')) xs ys.
Definition ft (xs ys xout:list R) : list R := map (fun x' => trapz xs (kernel xs ys x')) xout.
Definition G_to_F (r G Q:list R) := ft r G Q.
Definition F_to_G (Q F r:list R) := map (fun v => 2/PI * v) (ft Q F r).
Definition grid (N:nat) (h:R) : list R := map (fun j => INR j * h) (seq 0 (S N)).

(* trapezoid on a uniform grid, data given as a function of the index *)
Lemma trapz_uniform_from (f:nat->R) h s n :
  trapz (map (fun j => INR j * h) (seq s (S n))) (map f (seq s (S n)))
  = h * (sumf (fun k => f (s+k)%nat) (S n) - (f s + f (s+n)%nat)/2).
Proof.
 revert s. induction n as [|n IH]; intros s.
 - cbn. rewrite Nat.add_0_r. lra.
 - specialize (IH (S s)). cbn [seq map] in IH |- *. rewrite trapz_cons2, IH. rewrite S_INR.
   rewrite (sumf_shift1 f s (S n)).
   replace (S s + n)%nat with (s + S n)%nat by lia.
   cbn [sumf]. lra.
Qed.
Lemma nth_map_lt {X} (f:X->R) (l:list X) k (dx:X) : (k < length l)%nat -> nth k (map f l) 0 = f (nth k l dx).
Proof. intros H. rewrite (nth_indep _ 0 (f dx)) by (rewrite map_length; exact H). apply map_nth. Qed.
Lemma grid_length N h : length (grid N h) = S N. Proof. unfold grid. rewrite map_length, seq_length. reflexivity. Qed.
Lemma grid_nth N h k : (k <= N)%nat -> nth k (grid N h) 0 = INR k * h.
Proof. intros H. unfold grid. rewrite (nth_map_lt _ _ _ O) by (rewrite seq_length; lia). rewrite seq_nth by lia. reflexivity. Qed.
Lemma list_as_map (l:list R) : l = map (fun k => nth k l 0) (seq 0 (length l)).
Proof. induction l as [|a l IH]; [reflexivity|]. cbn [length seq map nth]. f_equal. rewrite <- seq_shift, map_map. exact IH. Qed.
Lemma kernel_as_map (f g:nat->R) x' n s :
  kernel (map f (seq s n)) (map g (seq s n)) x' = map (fun k => g k * sin (f k * x')) (seq s n).
Proof. revert s. induction n as [|n IH]; intros s; [reflexivity|]. cbn. unfold kernel in IH. rewrite IH. reflexivity. Qed.

Lemma ft_uniform_nth (N:nat) h (ys:list R) x' : length ys = S N ->
  trapz (grid N h) (kernel (grid N h) ys x')
  = h * (sumf (fun k => nth k ys 0 * sin (INR k * h * x')) (S N)
         - (nth 0 ys 0 * sin (INR 0 * h * x') + nth N ys 0 * sin (INR N * h * x'))/2).
Proof.
 intros L. unfold grid. rewrite (list_as_map ys) at 1. rewrite L.
 rewrite kernel_as_map. rewrite (trapz_uniform_from (fun k => nth k ys 0 * sin (INR k * h * x')) h 0 N).
 cbn [Nat.add]. reflexivity.
Qed.

Theorem roundtrip_rQr (N:nat) (dr:R) (G:list R) :
  (0<N)%nat -> 0 < dr -> length G = S N -> nth 0 G 0 = 0 -> nth N G 0 = 0 ->
  let r := grid N dr in let Q := grid N (PI / (INR N * dr)) in
  F_to_G Q (G_to_F r G Q) r = G.
Proof.
 intros HN Hdr L G0 GN r Q.
 assert (HNr: 0 < INR N) by (apply lt_0_INR; lia).
 assert (Hpi: 0 < PI) by apply PI_RGT_0.
 set (dq := PI / (INR N * dr)).
 apply nth_ext with (d:=0) (d':=0).
 { unfold F_to_G, G_to_F, ft. rewrite !map_length. unfold r. rewrite grid_length. lia. }
 intros m Hm. unfold F_to_G, G_to_F, ft in *. rewrite !map_length in Hm. unfold r in Hm. rewrite grid_length in Hm.
 rewrite (nth_map_lt _ _ _ 0) by (rewrite map_length; unfold r; rewrite grid_length; lia).
 rewrite (nth_map_lt _ _ _ 0) by (unfold r; rewrite grid_length; lia).
 assert (Rm: nth m r 0 = INR m * dr) by (apply grid_nth; lia).
 rewrite Rm.
 (* outer transform on the Q grid *)
 unfold Q at 1 2. rewrite ft_uniform_nth by (rewrite map_length; unfold Q; apply grid_length).
 fold dq.
 (* values of F at index k *)
 assert (Fk: forall k, (k <= N)%nat ->
   nth k (map (fun x' => trapz r (kernel r G x')) Q) 0 =
   dr * sumf (fun j => nth j G 0 * sin (INR j * (INR k * PI / INR N))) N).
 { intros k Hk.
   rewrite (nth_map_lt _ _ _ 0) by (unfold Q; rewrite grid_length; lia).
   assert (Qk: nth k Q 0 = INR k * dq) by (apply grid_nth; lia).
   rewrite Qk. unfold r. rewrite ft_uniform_nth by exact L.
   rewrite G0, GN. cbn [sumf]. rewrite GN.
   replace (0 * sin (INR 0 * dr * (INR k * dq))) with 0 by lra.
   replace (0 * sin (INR N * dr * (INR k * dq))) with 0 by lra.
   f_equal. rewrite Rplus_0_r. replace ((0+0)/2) with 0 by lra. rewrite Rminus_0_r.
   apply sumf_ext. intros j _. f_equal. f_equal. unfold dq. field. split; lra. }
 (* end terms of the outer sum vanish *)
 replace (sin (INR 0 * dq * (INR m * dr))) with 0 by (cbn [INR]; rewrite !Rmult_0_l, sin_0; reflexivity).
 replace (sin (INR N * dq * (INR m * dr))) with 0.
 2:{ replace (INR N * dq * (INR m * dr)) with (INR m * PI) by (unfold dq; field; split; lra). symmetry; apply sin_nPI. }
 rewrite !Rmult_0_r, Rplus_0_r. replace (0/2) with 0 by lra. rewrite Rminus_0_r.
 cbn [sumf]. rewrite (Fk N) by lia.
 replace (sin (INR N * dq * (INR m * dr))) with 0.
 2:{ replace (INR N * dq * (INR m * dr)) with (INR m * PI) by (unfold dq; field; split; lra). symmetry; apply sin_nPI. }
 rewrite Rmult_0_r, Rplus_0_r.
 rewrite (sumf_ext _ (fun k => dr * sumf (fun j => nth j G 0 * (sin (INR j * (INR k * PI / INR N)) * sin (INR m * (INR k * PI / INR N)))) N)).
 2:{ intros k Hk. rewrite Fk by lia.
     replace (INR k * dq * (INR m * dr)) with (INR m * (INR k * PI / INR N)) by (unfold dq; field; split; lra).
     rewrite Rmult_assoc. f_equal. rewrite Rmult_comm, <- sumf_scal. apply sumf_ext. intros j _. lra. }
 rewrite sumf_scal, sumf_swap.
 rewrite (sumf_ext _ (fun j => nth j G 0 * sumf (fun k => sin (INR j * (INR k * PI / INR N)) * sin (INR m * (INR k * PI / INR N))) N))
   by (intros; rewrite sumf_scal; reflexivity).
 destruct (Nat.eq_dec m 0) as [->|Hm0].
 { rewrite G0. rewrite (sumf_ext _ (fun _ => 0)). rewrite sumf_zero; lra.
   intros j _. rewrite (sumf_ext _ (fun _ => 0)). rewrite sumf_zero; lra.
   intros k _. cbn [INR]. rewrite Rmult_0_l, sin_0. lra. }
 destruct (Nat.eq_dec m N) as [->|HmN].
 { rewrite GN. rewrite (sumf_ext _ (fun _ => 0)). rewrite sumf_zero; lra.
   intros j _. rewrite (sumf_ext _ (fun _ => 0)). rewrite sumf_zero; lra.
   intros k _. replace (INR N * (INR k * PI / INR N)) with (INR k * PI) by (field; lra). rewrite sin_nPI. lra. }
 rewrite (sumf_ext _ (fun j => if Nat.eqb j m then nth j G 0 * (INR N / 2) else 0)).
 2:{ intros j Hj. destruct (Nat.eq_dec j 0) as [->|Hj0].
     - rewrite G0. destruct (Nat.eqb_spec 0 m); lra.
     - rewrite dst_orthogonality by lia. destruct (Nat.eqb j m); lra. }
 rewrite (sumf_delta (fun j => nth j G 0 * (INR N / 2))) by lia.
 unfold dq. field. split; lra.
Qed.
Print Assumptions roundtrip_rQr.
