(* Design-phase feasibility spike for C15 (not part of the framework):
   the closed-form F1/F2 terms of the omitted low-Q correction are the integrals
   they are documented to be, with and without the Lorch window. *)
From Coq Require Import Reals Lra.
From Coquelicot Require Import Coquelicot.
Open Scope R_scope.

Ltac ftc F :=
  match goal with |- is_RInt ?f ?a ?b ?v =>
    replace v with (minus (F b) (F a));
    [ apply (is_RInt_derive F f);
      [ intros x _; auto_derive; [auto | try field; auto]
      | intros x _; apply (@ex_derive_continuous R_AbsRing R_NormedModule); auto_derive; auto ]
    | unfold minus, plus, opp; simpl ]
  end.

(* F2 = int_0^Qm Q sin(Q r) dQ *)
Lemma F2_is_integral (r qm:R) : r <> 0 ->
  is_RInt (fun q => q * sin (q*r)) 0 qm ((sin (qm*r) - qm*r*cos (qm*r)) / (r*r)).
Proof.
 intros Hr. ftc (fun q => (sin (q*r) - q*r*cos (q*r)) / (r*r)).
 rewrite !Rmult_0_l, sin_0. field. exact Hr.
Qed.

(* F1 = int_0^Qm Q^2 sin(Q r) dQ = (2 v sin v - (v^2-2) cos v - 2)/r^3, v = Qm r *)
Lemma F1_is_integral (r qm:R) : r <> 0 ->
  is_RInt (fun q => q * q * sin (q*r)) 0 qm
    ((2*(qm*r)*sin (qm*r) - ((qm*r)*(qm*r) - 2)*cos (qm*r) - 2) / (r*r*r)).
Proof.
 intros Hr. ftc (fun q => (2*(q*r)*sin (q*r) - ((q*r)*(q*r) - 2)*cos (q*r)) / (r*r*r)).
 rewrite !Rmult_0_l, sin_0, cos_0. field. exact Hr.
Qed.

(* Lorch: window sin(aQ)/(aQ); Q [S-1] W sin(Qr) with S = S0 Q/Qm
   = (S0/Qm) Q sin(aQ) sin(Qr)/a - sin(aQ) sin(Qr)/a *)
Ltac eqR := match goal with |- ?x = ?y => change (@eq R x y) end.
Lemma prod_to_sum x y : sin x * sin y = (cos (y - x) - cos (y + x)) / 2.
Proof. rewrite cos_minus, cos_plus. lra. Qed.

Lemma F2L_is_integral (r a qm:R) : a <> 0 -> r - a <> 0 -> r + a <> 0 ->
  is_RInt (fun q => sin (a*q) * sin (q*r) / a) 0 qm
    ((sin (qm*(r-a)) / (r-a) - sin (qm*(r+a)) / (r+a)) / (2*a)).
Proof.
 intros Ha Hm Hp.
 apply (is_RInt_ext (fun q => (cos (q*(r-a)) - cos (q*(r+a))) / (2*a))).
 { intros q _. rewrite prod_to_sum. replace (q*(r-a)) with (q*r - a*q) by lra. replace (q*(r+a)) with (q*r + a*q) by lra. eqR. field. exact Ha. }
 ftc (fun q => (sin (q*(r-a)) / (r-a) - sin (q*(r+a)) / (r+a)) / (2*a)).
 rewrite !Rmult_0_l, sin_0. field. auto.
Qed.

(* F1 with Lorch: int_0^Qm Q sin(aQ) sin(Qr)/a dQ
   = [ (vm sin vm + cos vm - 1)/(r-a)^2 - (vp sin vp + cos vp - 1)/(r+a)^2 ] / (2a) *)
Lemma F1L_is_integral (r a qm:R) : a <> 0 -> r - a <> 0 -> r + a <> 0 ->
  is_RInt (fun q => q * sin (a*q) * sin (q*r) / a) 0 qm
    (((qm*(r-a) * sin (qm*(r-a)) + cos (qm*(r-a)) - 1) / ((r-a)*(r-a))
      - (qm*(r+a) * sin (qm*(r+a)) + cos (qm*(r+a)) - 1) / ((r+a)*(r+a))) / (2*a)).
Proof.
 intros Ha Hm Hp.
 apply (is_RInt_ext (fun q => q * (cos (q*(r-a)) - cos (q*(r+a))) / (2*a))).
 { intros q _. replace (q * sin (a*q) * sin (q*r)) with (q * (sin (a*q) * sin (q*r))) by lra.
   rewrite prod_to_sum. replace (q*(r-a)) with (q*r - a*q) by lra. replace (q*(r+a)) with (q*r + a*q) by lra. eqR. field. exact Ha. }
 ftc (fun q => ((q*(r-a) * sin (q*(r-a)) + cos (q*(r-a))) / ((r-a)*(r-a))
              - (q*(r+a) * sin (q*(r+a)) + cos (q*(r+a))) / ((r+a)*(r+a))) / (2*a)).
 rewrite !Rmult_0_l, ?sin_0, ?cos_0. field. auto.
Qed.

(* the whole added term, no Lorch: (2/pi) int_0^Qm Q (S0 Q/Qm - 1) sin(Q r) dQ *)
Lemma correction_is_integral (r qm s0:R) : r <> 0 -> qm <> 0 ->
  is_RInt (fun q => q * (s0 * q / qm - 1) * sin (q*r)) 0 qm
    (s0 / qm * ((2*(qm*r)*sin (qm*r) - ((qm*r)*(qm*r) - 2)*cos (qm*r) - 2) / (r*r*r))
     - (sin (qm*r) - qm*r*cos (qm*r)) / (r*r)).
Proof.
 intros Hr Hq.
 apply (is_RInt_ext (fun q => plus (scal (s0/qm) (q*q*sin (q*r))) (opp (q * sin (q*r))))).
 { intros q _. unfold plus, scal, opp; simpl. unfold mult; simpl. eqR. field. exact Hq. }
 apply (is_RInt_plus (V:=R_NormedModule)).
 - apply (is_RInt_scal (V:=R_NormedModule)). apply F1_is_integral; exact Hr.
 - apply (is_RInt_opp (V:=R_NormedModule)). apply F2_is_integral; exact Hr.
Qed.
Print Assumptions correction_is_integral.
Print Assumptions F1L_is_integral.
