(* Design-phase feasibility spike for C10 (not part of the framework):
   stable sort by Q + run-length averaging, as in StoG.merge_data.
   Route: (1) one-step unfolding equation of the loop on key-sorted input,
   (2) by strong induction on length: output keys strictly increasing, each row is the
   per-key mean, key sets coincide, (3) hence order independence. *)
From Coq Require Import List Reals Lra Lia Permutation Sorted.
Import ListNotations.
Open Scope R_scope.

Definition item := (R * R)%type.           (* (Q, S); the uncertainty column is analogous *)
Definition Rleb (a b:R) : bool := if Rle_dec a b then true else false.
Definition Reqb (a b:R) : bool := if Req_EM_T a b then true else false.

(* stable insertion sort on the key (Python: sorted(zipped, key=lambda a: a[0])) *)
Fixpoint insert (it:item) (l:list item) : list item :=
  match l with [] => [it] | h::t => if Rleb (fst it) (fst h) then it::h::t else h :: insert it t end.
Definition sort (l:list item) : list item := fold_right insert [] l.

(* the run-length loop of merge_data; the running group is the accumulator *)
Fixpoint go (prev nt ns:R) (l:list item) : list item :=
  match l with
  | [] => [(prev, ns/nt)]
  | it::l' => if Reqb (fst it) prev then go prev (nt+1) (ns + snd it) l'
              else (prev, ns/nt) :: go (fst it) 1 (snd it) l'
  end.
Definition merge_sorted (l:list item) : list item :=
  match l with [] => [] | it::l' => go (fst it) 1 (snd it) l' end.
Definition merge (l:list item) := merge_sorted (sort l).

Fixpoint sum_at (q:R) (l:list item) : R := match l with [] => 0 | it::t => (if Reqb (fst it) q then snd it else 0) + sum_at q t end.
Fixpoint cnt_at (q:R) (l:list item) : R := match l with [] => 0 | it::t => (if Reqb (fst it) q then 1 else 0) + cnt_at q t end.
Definition rest (k:R) (l:list item) := filter (fun it => negb (Reqb (fst it) k)) l.
Definition ksorted (l:list item) := StronglySorted (fun a b => fst a <= fst b) l.

Lemma Reqb_refl a : Reqb a a = true. Proof. unfold Reqb. destruct (Req_EM_T a a); congruence. Qed.
Lemma Reqb_true a b : Reqb a b = true -> a = b. Proof. unfold Reqb. destruct (Req_EM_T a b); congruence. Qed.
Lemma Reqb_false a b : Reqb a b = false -> a <> b. Proof. unfold Reqb. destruct (Req_EM_T a b); congruence. Qed.
Lemma Reqb_neq a b : a <> b -> Reqb a b = false. Proof. unfold Reqb. destruct (Req_EM_T a b); congruence. Qed.

Lemma ksorted_tail h t : ksorted (h::t) -> ksorted t. Proof. inversion 1; assumption. Qed.
Lemma ksorted_head h t it : ksorted (h::t) -> In it t -> fst h <= fst it.
Proof. inversion 1; subst. rewrite Forall_forall in H3. auto. Qed.

Lemma above_zero q l : (forall it, In it l -> q < fst it) -> sum_at q l = 0 /\ cnt_at q l = 0 /\ rest q l = l.
Proof. induction l as [|h t IH]; intros H; [cbn; auto|].
 destruct (IH ltac:(intros; apply H; right; assumption)) as [E1 [E2 E3]].
 assert (q < fst h) by (apply H; left; reflexivity).
 cbn [sum_at cnt_at rest filter]. rewrite Reqb_neq by lra. cbn [negb]. fold (rest q t). rewrite E1, E2, E3.
 split; [lra|split; [lra|reflexivity]]. Qed.

(* (1) the loop, started in a group with key prev and partial totals nt, ns *)
Lemma go_split : forall l prev nt ns, ksorted l -> (forall it, In it l -> prev <= fst it) ->
  go prev nt ns l = (prev, (ns + sum_at prev l)/(nt + cnt_at prev l)) :: merge_sorted (rest prev l).
Proof.
 induction l as [|h t IH]; intros prev nt ns S Hge.
 - cbn. rewrite !Rplus_0_r. reflexivity.
 - cbn [go sum_at cnt_at rest filter]. destruct (Reqb (fst h) prev) eqn:E.
   + rewrite IH by (eauto using ksorted_tail; intros; apply Hge; right; assumption).
     cbn [negb]. f_equal. f_equal. unfold Rdiv. f_equal; [lra|f_equal; lra].
   + cbn [negb]. apply Reqb_false in E.
     assert (Hlt: prev < fst h) by (assert (prev <= fst h) by (apply Hge; left; reflexivity); lra).
     destruct (above_zero prev t) as [-> [-> Er]].
     { intros it Hin. pose proof (ksorted_head _ _ _ S Hin). lra. }
     fold (rest prev t). rewrite Er. rewrite !Rplus_0_r. reflexivity.
Qed.

Lemma merge_sorted_unfold h t : ksorted (h::t) ->
  merge_sorted (h::t) = (fst h, sum_at (fst h) (h::t) / cnt_at (fst h) (h::t)) :: merge_sorted (rest (fst h) (h::t)).
Proof.
 intros S. cbn [merge_sorted]. rewrite go_split by (eauto using ksorted_tail; intros; eapply ksorted_head; eauto).
 cbn [sum_at cnt_at rest filter]. rewrite Reqb_refl. reflexivity.
Qed.

(* facts about rest *)
Lemma rest_sorted k l : ksorted l -> ksorted (rest k l).
Proof. induction 1 as [|h t S IH Hall]; cbn; [constructor|]. destruct (negb _); [|exact IH].
 constructor; [exact IH|]. rewrite Forall_forall in *. intros it Hin. apply filter_In in Hin. apply Hall. tauto. Qed.
Lemma rest_length k l : (length (rest k l) <= length l)%nat.
Proof. unfold rest. induction l as [|h t IH]; cbn [filter length]; [lia|]. destruct (negb _); cbn [length]; lia. Qed.
Lemma rest_In k l it : In it (rest k l) <-> In it l /\ fst it <> k.
Proof. unfold rest. rewrite filter_In. split; intros [H1 H2]; split; auto.
 - intros E. rewrite E, Reqb_refl in H2. discriminate.
 - rewrite Reqb_neq by assumption. reflexivity. Qed.
Lemma rest_sum k q l : q <> k -> sum_at q (rest k l) = sum_at q l /\ cnt_at q (rest k l) = cnt_at q l.
Proof. intros Hq. unfold rest. induction l as [|h t [IH1 IH2]]; [cbn; auto|]. cbn [filter].
 destruct (Reqb (fst h) k) eqn:E; cbn [negb sum_at cnt_at].
 - apply Reqb_true in E. rewrite (Reqb_neq (fst h) q) by congruence. rewrite IH1, IH2. split; lra.
 - rewrite IH1, IH2. auto. Qed.

(* (2) characterisation, by strong induction on the length *)
Definition rows_ok (l out:list item) :=
  (forall q v, In (q,v) out -> v = sum_at q l / cnt_at q l /\ exists it, In it l /\ fst it = q) /\
  (forall it, In it l -> In (fst it) (map fst out)) /\
  StronglySorted Rlt (map fst out) /\
  (forall q, In q (map fst out) -> forall it, In it l -> True).

Lemma merge_sorted_ok : forall n l, (length l <= n)%nat -> ksorted l ->
  (forall q v, In (q,v) (merge_sorted l) -> v = sum_at q l / cnt_at q l /\ exists it, In it l /\ fst it = q) /\
  (forall it, In it l -> In (fst it) (map fst (merge_sorted l))) /\
  StronglySorted Rlt (map fst (merge_sorted l)).
Proof.
 induction n as [|n IH]; intros l Hn S.
 - destruct l; [|cbn in Hn; lia]. cbn. split; [|split]; try constructor; intros; contradiction.
 - destruct l as [|h t]. { cbn. repeat split; try constructor; intros; contradiction. }
   rewrite merge_sorted_unfold by exact S. set (k := fst h).
   assert (Hr: rest k (h::t) = rest k t) by (cbn; unfold k; rewrite Reqb_refl; reflexivity).
   assert (Sr: ksorted (rest k t)) by (apply rest_sorted; eauto using ksorted_tail).
   assert (Lr: (length (rest k t) <= n)%nat) by (pose proof (rest_length k t); cbn in Hn; lia).
   destruct (IH _ Lr Sr) as [A [B C]]. rewrite Hr.
   assert (Hgt: forall it, In it (rest k t) -> k < fst it).
   { intros it Hin. apply rest_In in Hin. destruct Hin as [Hin Hne]. pose proof (ksorted_head _ _ _ S Hin). unfold k in *. lra. }
   split; [|split].
   + intros q v [Heq|Hin].
     * inversion Heq; subst. split; [reflexivity|]. exists h. split; [left|]; reflexivity.
     * destruct (A q v Hin) as [A1 [it [I1 I2]]]. pose proof (Hgt it I1) as G.
       assert (q <> k) by lra. destruct (rest_sum k q t H) as [E1 E2].
       split.
       -- rewrite A1, E1, E2. cbn [sum_at cnt_at]. fold k. rewrite (Reqb_neq k q) by lra. f_equal; lra.
       -- exists it. apply rest_In in I1. split; [right; tauto|exact I2].
   + intros it [<-|Hin]; [left; reflexivity|]. cbn [map]. destruct (Req_EM_T (fst it) k) as [E|E]; [left; auto|].
     right. apply B. apply rest_In. auto.
   + cbn [map]. constructor; [exact C|]. rewrite Forall_forall. intros q Hq. apply in_map_iff in Hq.
     destruct Hq as [[q' v] [<- Hin]]. destruct (A q' v Hin) as [_ [it [I1 I2]]]. cbn. rewrite <- I2. apply Hgt. exact I1.
Qed.

(* sorting facts *)
Lemma insert_perm it l : Permutation (it::l) (insert it l).
Proof. induction l as [|h t IH]; cbn; [reflexivity|]. destruct (Rleb _ _); [reflexivity|].
 rewrite perm_swap. constructor. exact IH. Qed.
Lemma sort_perm l : Permutation l (sort l).
Proof. induction l as [|h t IH]; cbn; [constructor|]. rewrite <- insert_perm. constructor. exact IH. Qed.
Lemma insert_sorted it l : ksorted l -> ksorted (insert it l).
Proof. induction 1 as [|h t S IH Hall].
 - cbn. constructor; constructor.
 - cbn [insert]. unfold Rleb. destruct (Rle_dec (fst it) (fst h)) as [Hle|Hgt].
   + constructor; [constructor; assumption|]. constructor; [exact Hle|].
     rewrite Forall_forall in *. intros x Hx. specialize (Hall x Hx). lra.
   + constructor; [exact IH|]. rewrite Forall_forall in *. intros x Hx.
     apply (Permutation_in _ (Permutation_sym (insert_perm it t))) in Hx. destruct Hx as [<-|Hx]; [lra|auto].
Qed.
Lemma sort_sorted l : ksorted (sort l).
Proof. induction l as [|h t IH]; cbn; [constructor|]. apply insert_sorted. exact IH. Qed.

Lemma sum_at_perm q l l' : Permutation l l' -> sum_at q l = sum_at q l' /\ cnt_at q l = cnt_at q l'.
Proof. induction 1 as [|x l l' P [I1 I2]|x y l|l l' l'' P1 [I1 I2] P2 [J1 J2]]; cbn; split; lra. Qed.

Lemma strictly_sorted_ext (a b:list R) : StronglySorted Rlt a -> StronglySorted Rlt b ->
  (forall x, In x a <-> In x b) -> a = b.
Proof.
 revert b. induction a as [|x a IH]; intros b Sa Sb H.
 - destruct b as [|y b]; [reflexivity|]. exfalso. apply (H y). left; reflexivity.
 - destruct b as [|y b]. { exfalso. apply (H x). left; reflexivity. }
   inversion Sa as [|? ? Sa' Ha]; inversion Sb as [|? ? Sb' Hb]; subst. rewrite Forall_forall in Ha, Hb.
   assert (x = y).
   { destruct (proj1 (H x) (or_introl eq_refl)) as [E|Hin]; [auto|].
     destruct (proj2 (H y) (or_introl eq_refl)) as [E|Hin']; [auto|].
     specialize (Ha y Hin'). specialize (Hb x Hin). lra. }
   subst y. f_equal. apply IH; auto. intros z. split; intros Hz.
   + destruct (proj1 (H z) (or_intror Hz)) as [E|?]; [|assumption]. subst z. specialize (Ha x Hz). lra.
   + destruct (proj2 (H z) (or_intror Hz)) as [E|?]; [|assumption]. subst z. specialize (Hb x Hz). lra.
Qed.

(* ---------- the property-level statements ---------- *)
Theorem merge_strictly_increasing l : StronglySorted Rlt (map fst (merge l)).
Proof. apply (merge_sorted_ok (length (sort l)) (sort l) (le_n _) (sort_sorted l)). Qed.

Theorem merge_value_is_mean l q v : In (q,v) (merge l) -> v = sum_at q l / cnt_at q l /\ exists it, In it l /\ fst it = q.
Proof. intros H. destruct (merge_sorted_ok _ _ (le_n _) (sort_sorted l)) as [A _]. destruct (A q v H) as [E [it [I1 I2]]].
 destruct (sum_at_perm q _ _ (sort_perm l)) as [E1 E2]. split; [rewrite E1, E2; exact E|].
 exists it. split; [|exact I2]. apply (Permutation_in _ (Permutation_sym (sort_perm l))). exact I1. Qed.

Theorem merge_covers l it : In it l -> In (fst it) (map fst (merge l)).
Proof. intros H. destruct (merge_sorted_ok _ _ (le_n _) (sort_sorted l)) as [_ [B _]]. apply B.
 apply (Permutation_in _ (sort_perm l)). exact H. Qed.

Lemma rows_determined (out:list item) (f:R->R) : (forall q v, In (q,v) out -> v = f q) -> out = map (fun q => (q, f q)) (map fst out).
Proof. induction out as [|[q v] t IH]; intros H; [reflexivity|]. cbn. f_equal.
 - f_equal. apply H. left; reflexivity.
 - apply IH. intros; apply H; right; assumption. Qed.

Theorem merge_perm l l' : Permutation l l' -> merge l = merge l'.
Proof.
 intros P.
 assert (K: map fst (merge l) = map fst (merge l')).
 { apply strictly_sorted_ext; try apply merge_strictly_increasing. intros q. split; intros Hq.
   - apply in_map_iff in Hq. destruct Hq as [[q' v] [<- Hin]]. destruct (merge_value_is_mean _ _ _ Hin) as [_ [it [I1 I2]]].
     cbn. rewrite <- I2. apply merge_covers. apply (Permutation_in _ P). exact I1.
   - apply in_map_iff in Hq. destruct Hq as [[q' v] [<- Hin]]. destruct (merge_value_is_mean _ _ _ Hin) as [_ [it [I1 I2]]].
     cbn. rewrite <- I2. apply merge_covers. apply (Permutation_in _ (Permutation_sym P)). exact I1. }
 rewrite (rows_determined (merge l) (fun q => sum_at q l / cnt_at q l)) by (intros q v H; apply merge_value_is_mean; exact H).
 rewrite (rows_determined (merge l') (fun q => sum_at q l' / cnt_at q l')) by (intros q v H; apply merge_value_is_mean; exact H).
 rewrite K. apply map_ext. intros q. destruct (sum_at_perm q _ _ P) as [-> ->]. reflexivity.
Qed.
Print Assumptions merge_perm.
